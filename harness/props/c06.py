"""
C06 — emitted code is valid Python that behaves as the IR says.

The judge is the interpreter itself: compile, exec, class __dict__/__annotations__, inspect.signature, a real
ArgumentParser, ast.parse(ast.unparse(.)), emit.file with and without black.
Model tie: Views.classView / sigView / argView (what CPython must see, as a function of the description)
vs what CPython does see in the executed artefact.
"""
import argparse
import ast
import copy
import inspect
import os
import shutil
import tempfile
import typing

from .. import gen as G
from .. import irutil, kinds
from ..astkinds import C04, AstKindProp
from ..common import canon_val, exc_kind, val_to_json

EXEC_GLOBALS = dict(vars(typing))
EXEC_GLOBALS.update({"np": type("np", (), {"ndarray": object}), "tf": type("tf", (), {"Tensor": object}), "torch": type("torch", (), {"nn": type("nn", (), {"Module": object})})})
ZERO = {"int": 0, "float": 0.0, "str": "", "bool": False}


def reparse_normalise(tree):
    """the two systematic differences between an emitted tree and the parse of its own text on 3.12
    (DESIGN §2 `reparse`): absent type_params, negative numeric constants"""

    class N(ast.NodeTransformer):
        def visit_Constant(self, node):
            if isinstance(node.value, (int, float)) and not isinstance(node.value, bool) and node.value < 0:
                return ast.UnaryOp(op=ast.USub(), operand=ast.Constant(value=-node.value))
            return node

    t = N().visit(copy.deepcopy(tree))
    for n in ast.walk(t):
        if isinstance(n, (ast.ClassDef, ast.FunctionDef)) and not hasattr(n, "type_params"):
            n.type_params = []
    return t


def _clean_docstrings(tree):
    t = copy.deepcopy(tree)
    for n in ast.walk(t):
        if isinstance(n, (ast.Module, ast.ClassDef, ast.FunctionDef)) and n.body and isinstance(n.body[0], ast.Expr) \
                and isinstance(n.body[0].value, ast.Constant) and isinstance(n.body[0].value.value, str):
            n.body[0].value.value = "\n".join(l.rstrip() for l in inspect.cleandoc(n.body[0].value.value).split("\n")).strip()
    return t


def rt(v):
    """canonical runtime value"""
    return canon_val(val_to_json(v))


class C06(AstKindProp):
    id = "C06"
    quick_cases = 800
    thorough_cases = 12000
    rule = (
        "case = (IR of the property domain, kind in class/function/argparse, emitter options). Every artefact is "
        "compiled, executed and inspected by CPython (class attributes and annotations, inspect.signature, a real "
        "ArgumentParser's action table), unparsed/re-parsed, and written with emit.file with and without black. "
        "Non-trivial = at least one parameter; distinct by (IR, kind, options)."
    )

    def gen(self, r, i, run):
        kind = r.choice(["class", "function", "argparse"])
        full = r.random() < 0.7
        irj = G.gen_ir(r, rich=r.random() < 0.5, p_typ=1.0 if full else 0.85, p_doc=1.0 if full else 0.85)
        numlit = False
        if kind == "argparse":
            irj = C04.restrict(self, irj, r)
            if irj["params"] and r.random() < 0.08:
                # a Literal of numbers with a negative member (a unary minus in the syntax tree of the type)
                k = r.randrange(len(irj["params"]))
                t, ms = r.choice([("Literal[-1, 0, 1]", [-1, 0, 1]), ("Literal[2, -2]", [2, -2]), ("Literal[-0.5, 0.5]", [-0.5, 0.5])])
                nm, p = irj["params"][k]
                if not nm.endswith("kwargs"):
                    irj["params"][k] = (nm, {"typ": t, "doc": p.get("doc") or "the choice", "default": r.choice(ms)})
                    numlit = True
        opts = {"emit_default_doc": r.random() < 0.6}
        if numlit:
            opts["numeric_literal"] = True
        if kind == "function":
            opts.update({"inline_types": r.random() < 0.6, "emit_as_kwonlyargs": r.random() < 0.5, "function_type": r.choice(["static", "self", "cls"])})
            if r.random() < 0.3:
                # name and kind are not passed: the emitter takes them from the description
                opts.update({"ir_type": opts["function_type"], "function_type": None, "name": None})
        # the emitters' less used options (left out = the emitter's own default)
        if kind == "function" and r.random() < 0.4:
            opts["emit_separating_tab"] = r.random() < 0.5
        if kind == "class" and r.random() < 0.3:
            opts["emit_call"] = r.random() < 0.5
        if kind == "argparse" and r.random() < 0.4:
            opts["docstring_format"] = r.choice(["rest", "google", "numpydoc"])
        if kind == "argparse" and r.random() < 0.3:
            opts["wrap_description"] = r.random() < 0.5
        if r.random() < 0.25:
            opts["emitted_before"] = r.choice([k for k in ("class", "function", "argparse") if k != kind])
        run.dist["kind"][kind] += 1
        run.dist["emitted_before"][opts.get("emitted_before", "-")] += 1
        return {"ir": irutil.ir_to_json(irj), "kind": kind, "opts": opts}

    def describe(self, c):
        return {"kind": c["kind"], "opts": c["opts"], "ir": c["ir"]}

    # ---- execute the artefact ------------------------------------------------------------------
    def artefact(self, c):
        ir = self.py_ir(c["ir"])
        if c["opts"].get("ir_type"):
            ir["type"], ir["name"] = c["opts"]["ir_type"], "call_peril"
        if c["opts"].get("emitted_before"):
            # the same description object has already been through another emitter (with default text on)
            from doctrans import emit as E

            pre = {"class": E.class_, "function": E.function, "argparse": E.argparse_function}[c["opts"]["emitted_before"]]
            try:
                pre(ir, emit_default_doc=True)
            except Exception:
                pass
            return ir, self._emit_same_object(c, ir)
        return ir, kinds.emit(c["kind"], ir, c["opts"])

    def _fresh_ir(self, c):
        ir = self.py_ir(c["ir"])
        if c["opts"].get("ir_type"):
            ir["type"], ir["name"] = c["opts"]["ir_type"], "call_peril"
        return ir

    def _emit_same_object(self, c, ir):
        from doctrans import emit as E

        o = c["opts"]
        if c["kind"] == "class":
            return E.class_(ir, class_name="ConfigClass", emit_default_doc=o.get("emit_default_doc", True), word_wrap=False)
        if c["kind"] == "argparse":
            return E.argparse_function(ir, function_name="set_cli_args", emit_default_doc=o.get("emit_default_doc", True), word_wrap=False)
        return E.function(ir, function_name=o.get("name", "call_peril"), function_type=o.get("function_type", "static"), emit_default_doc=o.get("emit_default_doc", True),
                          word_wrap=False, inline_types=o.get("inline_types", True), emit_as_kwonlyargs=o.get("emit_as_kwonlyargs", False), indent_level=2)  # fmt: skip

    def runtime_view(self, c, art):
        src = kinds.to_source(c["kind"], art)
        ns = dict(EXEC_GLOBALS)
        exec(compile(src, "<emitted>", "exec"), ns)
        if c["kind"] == "class":
            cls = ns["ConfigClass"]
            ann = cls.__dict__.get("__annotations__", {})
            tree = ast.parse(src).body[0]
            ann_src = {s.target.id: ast.unparse(s.annotation) for s in tree.body if isinstance(s, ast.AnnAssign)}
            names = [s.target.id for s in tree.body if isinstance(s, ast.AnnAssign)] + [t.id for s in tree.body if isinstance(s, ast.Assign) for t in s.targets]
            return [{"name": n, "annotation": ann_src.get(n), "value": rt(getattr(cls, n))} for n in names if n in ann or n in cls.__dict__]
        if c["kind"] == "function":
            fn = ns["call_peril"]
            sig = inspect.signature(fn)
            tree = ast.parse(src).body[0]
            ann = {a.arg: (ast.unparse(a.annotation) if a.annotation else None) for a in tree.args.args + tree.args.kwonlyargs}
            params, var_kw = [], False
            first = next(iter(sig.parameters), None)
            receiver = first if first in ("self", "cls") else None
            for p in sig.parameters.values():
                if p.name in ("self", "cls"):
                    continue
                if p.kind is inspect.Parameter.VAR_KEYWORD:
                    var_kw = True
                    continue
                params.append({"name": p.name, "kwonly": p.kind is inspect.Parameter.KEYWORD_ONLY, "annotation": ann.get(p.name),
                               "default": "<required>" if p.default is inspect.Parameter.empty else rt(p.default)})  # fmt: skip
            return {"params": params, "var_kw": var_kw, "return": ast.unparse(tree.returns) if tree.returns else None, "receiver": receiver}
        parser = argparse.ArgumentParser()
        res = ns["set_cli_args"](parser)
        out = []
        for a in parser._actions:
            if a.dest == "help":
                continue
            out.append({"dest": a.dest, "type": getattr(a.type, "__name__", None) if a.type else None, "choices": a.choices is not None,
                        "append": type(a).__name__ == "_AppendAction", "required": bool(a.required),
                        "default": None if a.default is None else rt(a.default), "help": a.help, "choices_v": list(a.choices) if a.choices else None})  # fmt: skip
        return {"options": out, "description": parser.description, "returned_parser": res is parser or (isinstance(res, tuple) and res[0] is parser)}

    def corr(self, c, run):
        if c["opts"].get("numeric_literal"):
            return []  # (outside the value grammar of the argparse view model: predicate only)
        op = {"op": "view", "kind": c["kind"], "ir": c["ir"], "inline": bool(c["opts"].get("inline_types")), "kwonly": bool(c["opts"].get("emit_as_kwonlyargs")),
              "function_type": c["opts"].get("function_type"), "ir_type": c["opts"].get("ir_type")}  # fmt: skip
        try:
            _, art = self.artefact(c)
            v = self.runtime_view(c, art)
            if c["kind"] == "argparse":
                impl = {"ok": [{k: o[k] for k in ("dest", "type", "choices", "append", "required", "default")} for o in v["options"]]}
            else:
                impl = {"ok": v}
        except Exception as e:
            impl = {"raises": exc_kind(e)}
        return [("view_" + c["kind"], op, impl)]

    def canon_model(self, layer, op, ans):
        if "ok" not in ans:
            return ans
        o = ans["ok"]
        if op["kind"] == "class":
            return {"ok": [{"name": a["name"], "annotation": a["annotation"], "value": canon_val(a["value"])} for a in o]}
        if op["kind"] == "argparse":
            return {"ok": [dict(a, default=None if a["default"] is None else canon_val(a["default"])) for a in o]}
        return {"ok": {"params": [dict(p, default=canon_val(p["default"])) for p in o["params"]], "var_kw": o["var_kw"], "return": o["return"], "receiver": o.get("receiver")}}

    # ---- the property on the real code ----------------------------------------------------------
    def oracle(self, c, run):
        cls = self.classify(c, {})
        run.count("oracle:%s:%s" % (c["kind"], cls or "in-domain"))
        fails = []
        try:
            ir, art = self.artefact(c)
        except Exception as e:
            return [{"what": "emitter raised", "exc": exc_kind(e), "kind": c["kind"]}]
        if c["opts"].get("emitted_before"):
            # the artefact must not depend on what the description object has been through
            try:
                fresh = kinds.to_source(c["kind"], self._emit_same_object(c, self._fresh_ir(c)))
                if fresh != kinds.to_source(c["kind"], art):
                    fails.append({"what": "artefact differs from the one emitted from a fresh copy of the description", "emitted_before": c["opts"]["emitted_before"], "kind": c["kind"]})
            except Exception as e:
                fails.append({"what": "emitter raised on a fresh copy only", "exc": exc_kind(e), "kind": c["kind"]})
        # (1) valid syntax, survives unparse/re-parse with an identical tree
        try:
            src = kinds.to_source(c["kind"], art)
            tree = ast.parse(src)
        except Exception as e:
            return [{"what": "emitted artefact is not valid Python", "exc": exc_kind(e), "kind": c["kind"]}]
        want = ast.dump(reparse_normalise(ast.Module(body=[art], type_ignores=[])))
        if ast.dump(tree) != want:
            fails.append({"what": "tree changes through unparse/re-parse", "kind": c["kind"], "source": src[:800]})
        # (2) file emission with and without black keeps the tree
        d = tempfile.mkdtemp(prefix="c06")
        try:
            from doctrans import emit as E

            for skip_black in (True, False):
                fn = os.path.join(d, "out_%s.py" % skip_black)
                E.file(copy.deepcopy(art), fn, mode="wt", skip_black=skip_black)
                with open(fn) as fh:
                    t2 = ast.parse(fh.read())
                if ast.dump(t2) != ast.dump(tree):
                    if not skip_black and ast.dump(_clean_docstrings(t2)) == ast.dump(_clean_docstrings(tree)):
                        fails.append({"what": "black re-indents the docstring constant", "kind": c["kind"]})
                    else:
                        fails.append({"what": "tree changes through emit.file", "skip_black": skip_black, "kind": c["kind"]})
            # (2b) emitted OVER an existing file that holds a near-identical program (a string constant differing in
            # white space only; a constant of equal value but another type), the file must end up holding the artefact
            for label, variant in _near_variants(art):
                fn = os.path.join(d, "over_%s.py" % label)
                E.file(variant, fn, mode="wt", skip_black=True)
                E.file(copy.deepcopy(art), fn, mode="wt", skip_black=True)
                with open(fn) as fh:
                    t3 = ast.parse(fh.read())
                if ast.dump(t3) != ast.dump(tree):
                    fails.append({"what": "emitted over a file holding a near-identical program, the file does not hold the artefact", "variant": label, "kind": c["kind"]})
            # (2c) APPENDED to a hand-written file (last line terminated or not, a statement or a comment): the file holds
            # the old statements followed by the artefact
            for label, old in (("terminated", "VERSION = 1\n"), ("unterminated", "import os\nVERSION = 1"), ("comment", "VERSION = 1\n# the end"), ("blank", ""),
                               ("blank_end", "VERSION = 1 "), ("comment_blank_end", "VERSION = 1\n# the end\t"), ("dangling_indent", "VERSION = 1\n    ")):
                for skip_black in ((True, False) if label in ("unterminated", "comment") else (True,)):
                    fn = os.path.join(d, "app_%s_%s.py" % (label, skip_black))
                    with open(fn, "w") as fh:
                        fh.write(old)
                    E.file(copy.deepcopy(art), fn, mode="a", skip_black=skip_black)
                    with open(fn) as fh:
                        text = fh.read()
                    try:
                        t4 = ast.parse(text)
                    except SyntaxError as e:
                        fails.append({"what": "appended to an existing file, the file is no longer valid Python", "file_ended": label, "skip_black": skip_black, "kind": c["kind"], "exc": exc_kind(e)})
                        continue
                    k = len(ast.parse(old).body)
                    new_part = ast.Module(body=t4.body[k:], type_ignores=[])
                    same = ast.dump(new_part) == ast.dump(tree) or (not skip_black and ast.dump(_clean_docstrings(new_part)) == ast.dump(_clean_docstrings(tree)))
                    if ast.dump(ast.Module(body=t4.body[:k], type_ignores=[])) != ast.dump(ast.parse(old)) or not same:
                        fails.append({"what": "appended to an existing file, the file is not the old statements followed by the artefact", "file_ended": label, "skip_black": skip_black, "kind": c["kind"]})
        except Exception as e:
            fails.append({"what": "emit.file raised", "exc": exc_kind(e), "kind": c["kind"]})
        finally:
            shutil.rmtree(d, ignore_errors=True)
        # (3) executed, it exhibits the interface
        try:
            view = self.runtime_view(c, art)
        except Exception as e:
            fails.append({"what": "emitted artefact cannot be executed/inspected", "exc": exc_kind(e), "kind": c["kind"], "source": src[:800]})
            return fails
        fails += getattr(self, "expect_" + c["kind"])(c, ir, view, src)
        return fails

    def _entries(self, ir):
        return list(ir["params"].items())

    def expect_class(self, c, ir, view, src):
        fails = []
        want_names = [n for n, _ in self._entries(ir)] + (["return_type"] if ir.get("returns") else [])
        got_names = [a["name"] for a in view]
        if got_names != want_names:
            return [{"what": "class does not have exactly the described attributes in order", "want": want_names, "got": got_names}]
        ents = self._entries(ir) + ([("return_type", ir["returns"]["return_type"])] if ir.get("returns") else [])
        for (n, p), a in zip(ents, view):
            if p.get("typ") and a["annotation"] != p["typ"]:
                fails.append({"what": "attribute annotation differs", "name": n, "want": p["typ"], "got": a["annotation"]})
            if "default" in p and p["default"] not in irutil.NONE_TYPES:
                if a["value"] != rt(p["default"]):
                    fails.append({"what": "attribute value differs from the explicit default", "name": n, "want": rt(p["default"]), "got": a["value"]})
            elif a["value"] not in (["none"], rt(ZERO.get(p.get("typ"), None))):
                fails.append({"what": "attribute without default holds neither None nor the zero of its type", "name": n, "got": a["value"]})
        return fails

    def expect_function(self, c, ir, view, src):
        fails = []
        o = c["opts"]
        ents = [(n, p) for n, p in self._entries(ir) if not n.endswith("kwargs")]
        want_names = [n for n, _ in ents]
        got_names = [p["name"] for p in view["params"]]
        if got_names != want_names:
            return [{"what": "signature does not have exactly the described parameters in order", "want": want_names, "got": got_names}]
        want_recv = {"static": None, "self": "self", "cls": "cls"}[o.get("ir_type") or o.get("function_type") or "static"]
        if view.get("receiver") != want_recv:
            fails.append({"what": "first parameter does not match the function kind (plain / instance method / class method)", "want": want_recv, "got": view.get("receiver")})
        if view["var_kw"] != any(n.endswith("kwargs") for n, _ in self._entries(ir)):
            fails.append({"what": "**kwargs presence differs", "got": view["var_kw"]})
        for (n, p), s in zip(ents, view["params"]):
            if s["kwonly"] != bool(o.get("emit_as_kwonlyargs")):
                fails.append({"what": "parameter kind (positional / keyword-only) differs", "name": n, "got": s["kwonly"]})
            if o.get("inline_types") and p.get("typ") and s["annotation"] != p["typ"]:
                fails.append({"what": "parameter annotation differs", "name": n, "want": p["typ"], "got": s["annotation"]})
            if "default" in p and p["default"] not in irutil.NONE_TYPES:
                if s["default"] != rt(p["default"]):
                    fails.append({"what": "parameter default differs from the explicit default", "name": n, "want": rt(p["default"]), "got": s["default"]})
            elif "default" in p:
                if s["default"] != ["none"]:
                    fails.append({"what": "parameter with a None default has another default", "name": n, "got": s["default"]})
            elif s["default"] != "<required>":
                fails.append({"what": "parameter without a default is not required in the emitted signature", "name": n, "got": s["default"]})
        r = (ir.get("returns") or {}).get("return_type")
        if o.get("inline_types") and r and r.get("typ") and view["return"] != r["typ"]:
            fails.append({"what": "return annotation differs", "want": r["typ"], "got": view["return"]})
        return fails

    def expect_argparse(self, c, ir, view, src):
        fails = []
        same_desc = (lambda a, b: " ".join(a.split()) == " ".join(b.split())) if c["opts"].get("wrap_description") else (lambda a, b: a.strip() == b.strip())
        if not same_desc(view["description"] or "", ir["doc"] or ""):
            fails.append({"what": "parser description differs", "want": ir["doc"], "got": view["description"]})
        if not view["returned_parser"]:
            fails.append({"what": "the function does not return the parser"})
        ents = self._entries(ir)
        if [o["dest"] for o in view["options"]] != [n for n, _ in ents]:
            return fails + [{"what": "parser does not register exactly the described options in order", "want": [n for n, _ in ents], "got": [o["dest"] for o in view["options"]]}]
        for (n, p), o in zip(ents, view["options"]):
            t = p.get("typ") or ""
            inner = t[9:-1] if t.startswith("Optional[") else (t[5:-1] if t.startswith("List[") else t)
            if inner in ("int", "float", "bool") and o["type"] != inner:
                fails.append({"what": "option type differs", "name": n, "want": inner, "got": o["type"]})
            if t.startswith("List[") != o["append"]:
                fails.append({"what": "list-ness (append action) differs", "name": n, "got": o["append"]})
            if t.startswith("Literal["):
                try:
                    members = list(ast.literal_eval(t[len("Literal") :]))
                except Exception:
                    members = None
                if members is not None and (o["choices_v"] or []) != members:
                    fails.append({"what": "choices differ from the Literal members", "name": n, "want": members, "got": o["choices_v"],
                                  "_negative_member_no_choices": any(isinstance(m, (int, float)) and not isinstance(m, bool) and m < 0 for m in members) and not o["choices_v"]})
            if t.startswith("Optional[") and o["required"]:
                fails.append({"what": "Optional option is required", "name": n})
            if "default" in p and p["default"] not in irutil.NONE_TYPES and o["default"] != rt(p["default"]):
                fails.append({"what": "option default differs from the explicit default", "name": n, "want": rt(p["default"]), "got": o["default"]})
            if irutil.prose_core(o["help"]) != irutil.prose_core(p.get("doc")):
                fails.append({"what": "help text differs", "name": n, "want": p.get("doc"), "got": o["help"]})
        return fails

    def classify(self, c, fl):
        what = fl.get("what", "")
        if fl.get("_negative_member_no_choices"):
            # (NO choices at all is the recorded defect; SOME of the members is not)
            return "C06-literal-with-a-negative-member-registers-no-choices"
        if what == "black re-indents the docstring constant":
            return "C06-black-normalises-docstring-indentation"
        if c["kind"] == "function" and what == "parameter without a default is not required in the emitted signature":
            return "C06-required-parameter-emitted-with-none-default"
        base = AstKindProp.classify(self, c, fl)
        if base:
            return base
        if c["kind"] == "argparse":
            if c["opts"].get("numeric_literal"):
                # the recorded classes are decided on the OTHER entries: the numeric Literal entry has a class of its own
                # (above), everything else about it is in domain
                c = dict(c, ir=dict(c["ir"], params=[(n, dict(p, typ="int") if (p.get("typ") or "").startswith("Literal[") and not (p.get("typ") or "").startswith("Literal['") else p) for n, p in c["ir"]["params"]]))
            return C04.classify_kind(self, c, fl)
        if c["kind"] == "class":
            from ..astkinds import C02

            return C02.classify_kind(self, c, fl)
        return None


def _near_variants(art):
    """[(label, tree)]: copies of the artefact with ONE constant changed - white space inside a string; a bool/int/float
    replaced by an equal value of another type"""
    out = []
    v = copy.deepcopy(art)
    for n in ast.walk(v):
        if isinstance(n, ast.Constant) and isinstance(n.value, str) and " " in n.value.strip():
            i = n.value.strip().index(" ") + (len(n.value) - len(n.value.lstrip()))
            n.value = n.value[:i] + " " + n.value[i:]
            out.append(("whitespace-in-string", v))
            break
    v = copy.deepcopy(art)
    for n in ast.walk(v):
        if isinstance(n, ast.Constant) and isinstance(n.value, (bool, int, float)):
            x = n.value
            n.value = int(x) if isinstance(x, bool) else (float(x) if isinstance(x, int) else (int(x) if x == int(x) else None))
            if n.value is not None:
                out.append(("equal-value-other-type", v))
                break
            n.value = x
    return out


PROP = C06()
