"""
C20 — rejected or failing invocations never damage source files.

Correspondence layers:
  `cli`  — Cli.syncDecide / syncPropsDecide / genDecide vs the real `main()` on generated argv shapes
  `fs`   — FsSync.runTargets (atomic write steps with a fault index) vs the real `sync` run with a
           fault injected into emit.file's open / write / os.replace at every position
Property predicate: directory snapshots before/after on the real code.
"""
import ast
import json
import contextlib
import io
import itertools
import os
import random
import shutil
import tempfile

from .. import projgen
from ..common import exc_kind
from ..engine import Prop

FILE_SHAPES = [None, ["T"], ["M"], ["T", "T"], ["M", "T"]]  # T = file exists, M = missing
FAULT_POINTS = ["before-open", "after-open", "mid-write", "at-replace", "at-close"]


class InjectedFault(OSError):
    pass


class InjectedEncodeFault(UnicodeError):
    """what f.write raises for text the target encoding cannot carry (a ValueError, not an OSError)"""


class InjectedInterrupt(KeyboardInterrupt):
    """the process is interrupted in the middle of the write"""


FAULT_CLASSES = (InjectedFault, InjectedEncodeFault, InjectedInterrupt)


class Injector:
    """Patches `open`, and `replace` as seen by doctrans.emit; counts write-opens; raises at (k, i)."""

    def __init__(self, root, fault=None, cls=InjectedFault):
        self.root, self.fault, self.cls = root, fault, cls
        self.log = []  # filenames opened for writing, in order
        self.k = -1

    def __enter__(self):
        import doctrans.emit as E

        self.E = E
        real_open, real_replace = open, os.replace
        inj = self

        class W:
            def __init__(self, f, k):
                self.f, self.k = f, k

            def write(self, s):
                if inj.fault == (self.k, 4):
                    # buffered I/O: the data only reaches the disk when the file is flushed / closed - and THAT fails
                    # (disk full, quota, file-size limit): half of it is written, then the error surfaces at close
                    self.pending = getattr(self, "pending", "") + s
                    return len(s)
                if inj.fault == (self.k, 1):
                    raise inj.cls("after open")
                if inj.fault == (self.k, 2):
                    self.f.write(s[: len(s) // 2])
                    self.f.flush()
                    raise inj.cls("mid-write")
                return self.f.write(s)

            def __enter__(self):
                return self

            def __exit__(self, *a):
                if inj.fault == (self.k, 4) and a[0] is None:
                    pend = getattr(self, "pending", "")
                    self.f.write(pend[: len(pend) // 2])
                    self.f.close()
                    raise inj.cls("at close")
                self.f.close()
                return False

        def fake_open(filename, mode="r", *a, **kw):
            if any(c in mode for c in "wa+x") and str(filename).startswith(inj.root):
                inj.k += 1
                inj.log.append(str(filename))
                if inj.fault == (inj.k, 0):
                    raise inj.cls("before open")
                return W(real_open(filename, mode, *a, **kw), inj.k)
            return real_open(filename, mode, *a, **kw)

        def fake_replace(src, dst):
            if inj.fault == (inj.k, 3):
                raise inj.cls("at replace")
            return real_replace(src, dst)

        self.had_replace = hasattr(E, "replace")
        self.old_replace = getattr(E, "replace", None)
        E.open = fake_open
        if self.had_replace:
            E.replace = fake_replace
        return self

    def __exit__(self, *a):
        del self.E.open
        if self.had_replace:
            self.E.replace = self.old_replace
        return False


def run_sync(cfg, root, via_cli):
    """-> ('ok', effect) | ('usage-error', code) | ('raises', kind)"""
    out = io.StringIO()
    try:
        with contextlib.redirect_stdout(out), contextlib.redirect_stderr(out):
            if via_cli:
                from doctrans.__main__ import main

                main(projgen.argv(cfg, root))
            else:
                from doctrans.conformance import ground_truth

                ground_truth(projgen.namespace(cfg, root), projgen.truth_path(cfg, root))
        return ("ok", None)
    except SystemExit as e:
        return ("usage-error" if e.code == 2 else "exit", e.code)
    except FAULT_CLASSES as e:
        return ("fault", str(e))
    except Exception as e:
        return ("raises", exc_kind(e))


def parses(text):
    try:
        ast.parse(text)
        return True
    except SyntaxError:
        return False


class C20(Prop):
    id = "C20"
    quick_cases = 200
    thorough_cases = 2400
    time_budget = {"quick": 150, "thorough": 1500}
    rule = (
        "two case families. cli: an argv shape of `sync` (truth kind x per kind: option absent / one or two files, each "
        "existing or missing / name given or not), of `sync_properties` (input/output existing or not) and of `gen` "
        "(output existing or not), run through the real main() in a scratch directory. fault: a generated sync project "
        "(2-3 kinds, 1-2 target files per kind in pre-states missing/empty/absent/stale/agreeing) run once without fault "
        "to learn the sequence of file writes, then once per (write k, fault point i in before-open/after-open/"
        "mid-write/at-replace/at-close) - every index, no sampling - plus a fault in the rendering step of every target. "
        "Non-trivial = an invocation that touches at least one file or is rejected with files present; distinct by "
        "argv shape / (project, fault)."
    )

    def setup(self, run):
        from doctrans.__main__ import main  # noqa: F401  (import errors surface here)

    # ---- generation --------------------------------------------------------------------
    def gen(self, r, i, run):
        if i < 48:
            # boundary shapes, enumerated: only the truth kind is given (one or two files) / one more file elsewhere
            t = projgen.KINDS[i % 3]
            j = i // 3
            tshape = [["T"], ["M"], ["T", "T"], ["M", "T"]][j % 4]
            named = (j // 4) % 2 == 0
            other = [None, ["T"]][(j // 8) % 2]
            kinds_ = {k: {"files": None, "named": False} for k in projgen.KINDS}
            kinds_[t] = {"files": tshape, "named": named}
            if other is not None:
                ok = [k for k in projgen.KINDS if k != t][0]
                kinds_[ok] = {"files": other, "named": True}
            return {"family": "cli", "truth": t, "kinds": kinds_, "sp": [True, True], "gen_out_exists": False, "seed": i}
        if i % 2 == 0:
            shape = {
                "family": "cli",
                "truth": r.choice(projgen.KINDS),
                "kinds": {k: {"files": r.choice(FILE_SHAPES), "named": r.random() < 0.75} for k in projgen.KINDS},
                "sp": [r.random() < 0.6, r.random() < 0.6],
                "gen_out_exists": r.random() < 0.5,
                "seed": r.randrange(1 << 30),
            }
            return shape
        cfg = projgen.gen_project(random.Random(r.randrange(1 << 30)), multi=True)
        cfg["ir"]["returns"] = None
        cfg["stale_ir"]["returns"] = None
        # regenerate contents without a return entry (see finding C09-return-default in DESIGN)
        cfg = _strip_returns(cfg, r)
        return {"family": "fault", "cfg": cfg, "via_cli": r.random() < 0.5}

    def describe(self, c):
        if c["family"] == "cli":
            return {"family": "cli", "truth": c["truth"], "kinds": c["kinds"]}
        return {
            "family": "fault",
            "truth": c["cfg"]["truth"],
            "targets": {k: [f["prestate"] for f in v["files"]] for k, v in c["cfg"]["kinds"].items()},
        }

    # ---- cli family ----------------------------------------------------------------------
    def _cli_project(self, c, root):
        r = random.Random(c["seed"])
        ir = projgen.core_ir(r, returns=False)
        stale = projgen.core_ir(r, returns=False)
        cfg = {"truth": c["truth"], "ir": ir, "stale_ir": stale, "kinds": {}}
        for k in projgen.KINDS:
            shp = c["kinds"][k]["files"]
            if shp is None:
                continue
            name = projgen.default_name(k, False)
            files = []
            for j, e in enumerate(shp):
                if e == "M":
                    files.append({"name": "%s_%d.py" % (k, j), "prestate": "missing", "content": None})
                else:
                    src_ir = ir if (k == c["truth"] and j == 0) or r.random() < 0.5 else stale
                    files.append({"name": "%s_%d.py" % (k, j), "prestate": "exists", "content": projgen.render(k, src_ir, name)})
            cfg["kinds"][k] = {"name": name, "method": False, "files": files}
        return cfg

    def _cli_argv(self, c, cfg, root):
        out = ["sync", "--truth", c["truth"]]
        flag = {"argparse_function": "--argparse-function", "class": "--class", "function": "--function"}
        for k in projgen.KINDS:
            kd = cfg["kinds"].get(k)
            if kd is not None:
                for f in kd["files"]:
                    out += [flag[k], os.path.join(root, f["name"])]
            if c["kinds"][k]["named"]:
                out += [flag[k] + "-name", projgen.default_name(k, False)]
        return out

    def _run_main(self, argv):
        out = io.StringIO()
        try:
            with contextlib.redirect_stdout(out), contextlib.redirect_stderr(out):
                from doctrans.__main__ import main

                main(argv)
            return "accept"
        except SystemExit as e:
            return "usage-error" if e.code == 2 else "exit-%s" % e.code
        except Exception as e:
            return "internal-error:" + exc_kind(e)

    def _cli_observe(self, c):
        """run the three sub-commands for this shape; -> dict of observations"""
        obs = {}
        root = tempfile.mkdtemp(prefix="c20cli")
        try:
            cfg = self._cli_project(c, root)
            projgen.materialise(cfg, root)
            before = projgen.snapshot(root)
            dec = self._run_main(self._cli_argv(c, cfg, root))
            after = projgen.snapshot(root)
            obs["sync"] = {"decision": dec, "untouched": before == after, "after": after, "before": before}
        finally:
            shutil.rmtree(root, ignore_errors=True)
        # sync_properties
        root = tempfile.mkdtemp(prefix="c20sp")
        try:
            inp, outp = os.path.join(root, "in.py"), os.path.join(root, "out.py")
            if c["sp"][0]:
                open(inp, "w").write("class A(object):\n    a: int = 5\n")
            if c["sp"][1]:
                open(outp, "w").write("class B(object):\n    b: str = 'x'\n")
            before = projgen.snapshot(root)
            dec = self._run_main(
                ["sync_properties", "--input-filename", inp, "--input-param", "A.a", "--output-filename", outp, "--output-param", "B.b"]
            )
            obs["sync_properties"] = {"decision": dec, "untouched": before == projgen.snapshot(root)}
        finally:
            shutil.rmtree(root, ignore_errors=True)
        # gen: only the refusal is decided here (generation itself is C19)
        root = tempfile.mkdtemp(prefix="c20gen")
        try:
            outp = os.path.join(root, "out.py")
            if c["gen_out_exists"]:
                open(outp, "w").write("x = 1\n")
                before = projgen.snapshot(root)
                # the existing file named absolutely, and through an unexpanded ~ (HOME = the scratch directory)
                spelled = outp if c["seed"] % 2 == 0 else "~/out.py"
                old_home = os.environ.get("HOME")
                os.environ["HOME"] = root
                import sys

                modname = "c20genmod_%d_%d" % (os.getpid(), c["seed"])
                with open(os.path.join(root, modname + ".py"), "w") as fh:
                    fh.write('class A(object):\n    """\n    The A.\n\n    :param size: the size.\n    """\n\n    def __init__(self, size=5):\n        pass\n\n\nMAPPING = {"A": A}\n')
                before = projgen.snapshot(root)
                sys.path.insert(0, root)
                try:
                    dec = self._run_main(
                        ["gen", "--name-tpl", "{name}Config", "--input-mapping", modname + ".MAPPING", "--type", "class", "-o", spelled]
                    )
                finally:
                    sys.path.remove(root)
                    sys.modules.pop(modname, None)
                    if old_home is None:
                        os.environ.pop("HOME", None)
                    else:
                        os.environ["HOME"] = old_home
                obs["gen"] = {"decision": "refuse" if dec == "internal-error:OSError" else dec, "untouched": before == projgen.snapshot(root), "spelled": spelled}
            else:
                obs["gen"] = {"decision": "accept", "untouched": True}
        finally:
            shutil.rmtree(root, ignore_errors=True)
        return obs

    # ---- fault family --------------------------------------------------------------------
    def _fault_observe(self, c):
        """fault-free run, then every fault; -> (targets log, per-fault snapshots, base snapshots)"""
        cfg = c["cfg"]
        res = {"runs": []}
        root = tempfile.mkdtemp(prefix="c20f")
        try:
            projgen.materialise(cfg, root)
            before = projgen.snapshot(root)
            with Injector(root) as inj:
                outcome = run_sync(cfg, root, c["via_cli"])
            final = projgen.snapshot(root)
            log = [_target_of(os.path.basename(p)) for p in inj.log]
            res.update({"before": before, "final": final, "outcome": outcome, "log": log})
        finally:
            shutil.rmtree(root, ignore_errors=True)
        if outcome[0] != "ok":
            return res
        salt = sum(map(ord, json.dumps(cfg, sort_keys=True, default=repr))) % 3
        for k in range(len(log)):
            for i in range(5):
                root = tempfile.mkdtemp(prefix="c20f")
                try:
                    projgen.materialise(cfg, root)
                    # the error class rotates over the fault positions (offset per case): an OSError, the
                    # ValueError a write raises for unencodable text, an interrupt
                    cls = FAULT_CLASSES[(k * 4 + i + salt) % len(FAULT_CLASSES)] if i < 4 else InjectedFault
                    with Injector(root, fault=(k, i), cls=cls) as inj:
                        oc = run_sync(cfg, root, c["via_cli"])
                    res["runs"].append({"fault": [k, i], "cls": cls.__name__, "outcome": oc, "after": projgen.snapshot(root)})
                finally:
                    shutil.rmtree(root, ignore_errors=True)
        # conversion-step faults: the n-th rendering (to_code inside emit.file) raises
        import doctrans.emit as E

        real_to_code = E.to_code
        for n in range(len(log)):
            root = tempfile.mkdtemp(prefix="c20f")
            calls = {"n": 0}

            def bad_to_code(node, _n=n):
                if isinstance(node, ast.Module):
                    calls["n"] += 1
                    if calls["n"] - 1 == _n:
                        raise InjectedFault("render")
                return real_to_code(node)

            try:
                projgen.materialise(cfg, root)
                E.to_code = bad_to_code
                oc = run_sync(cfg, root, c["via_cli"])
                res["runs"].append({"fault": [n, "render"], "outcome": oc, "after": projgen.snapshot(root)})
            finally:
                E.to_code = real_to_code
                shutil.rmtree(root, ignore_errors=True)
        return res

    # ---- engine hooks -----------------------------------------------------------------------
    def _observe(self, c):
        key = json.dumps(c, sort_keys=True, default=repr)
        if getattr(self, "_cache_key", None) != key:
            self._cache = self._cli_observe(c) if c["family"] == "cli" else self._fault_observe(c)
            self._cache_key = key
        return self._cache

    def corr(self, c, run):
        obs = self._observe(c)
        res = []
        if c["family"] == "cli":
            op = {"op": "cli_sync", "truth": c["truth"]}
            for k, key in (("argparse_function", "a"), ("class", "c"), ("function", "f")):
                shp = c["kinds"][k]["files"]
                op[key] = {"files": None if shp is None else [e == "T" for e in shp], "named": c["kinds"][k]["named"]}
            d = obs["sync"]["decision"]
            res.append(("cli", op, {"ok": "internal-error" if d.startswith("internal-error") else d}))
            res.append(
                (
                    "cli",
                    {"op": "cli_other", "input_exists": c["sp"][0], "output_exists": c["sp"][1], "_want": "sync_properties"},
                    {"ok": _norm(obs["sync_properties"]["decision"])},
                )
            )
            res.append(
                (
                    "cli",
                    {"op": "cli_other", "input_exists": True, "output_exists": c["gen_out_exists"] and obs["gen"].get("spelled", "/").startswith("/"), "_want": "gen"},
                    {"ok": obs["gen"]["decision"] if obs["gen"].get("spelled", "/").startswith("/") else "accept"},
                )
            )
            return res
        if obs.get("outcome", ("x",))[0] != "ok":
            return res
        names = sorted(set(obs["before"]) | set(obs["final"]) | {n + ".doctrans.tmp" for n in obs["log"]})
        ids = {n: j for j, n in enumerate(names)}
        files = [[ids[n], obs["before"].get(n)] for n in names]
        # contents written by each write (the file may be written more than once; the LAST write gives `final`)
        targets = []
        for j, n in enumerate(obs["log"]):
            new = self._content_after_write(obs, j)
            h = len(new) // 2
            targets.append({"p": ids[n], "tmp": ids[n + ".doctrans.tmp"], "a": new[:h], "b": new[h:]})
        for rrun in obs["runs"]:
            k, i = rrun["fault"]
            if i == "render":
                continue  # rendering calls do not map 1:1 onto writes (up-to-date files are rendered, not written): predicate only
            if i == 4:
                # the buffered model of ONE write (FsBuffered.atomicB): flush fails after half of the bytes
                n = obs["log"][k]
                earlier = [j for j in range(k) if obs["log"][j] == n]
                old = self._content_after_write(obs, earlier[-1]) if earlier else obs["before"].get(n)
                new = self._content_after_write(obs, k)
                bop = {"op": "fs_buffered", "old": old, "src": new, "fault": [2, len(new) // 2]}
                res.append(("fs", bop, {"ok": [rrun["after"].get(n), rrun["after"].get(n + ".doctrans.tmp")]}))
            fault = [k, min(i, 3)]  # (a failure at close is, for the model, a failure before the move: step 3 not done)
            op = {"op": "fs_targets", "files": files, "targets": targets, "fault": fault}
            impl = {"ok": sorted([ids.get(n, -1), rrun["after"].get(n)] for n in set(names) | set(rrun["after"]))}
            res.append(("fs", op, impl))
        return res

    def _content_after_write(self, obs, j):
        # the run with fault (j+1, 0) stops right after write j completed; use it to learn write j's content
        n = obs["log"][j]
        for rrun in obs["runs"]:
            if rrun["fault"] == [j + 1, 0]:
                return rrun["after"].get(n) or ""
        return obs["final"].get(n) or ""

    def canon_model(self, layer, op, ans):
        if layer == "fs" and op.get("op") == "fs_buffered":
            return ans
        if layer == "fs" and "ok" in ans:
            return {"ok": sorted(ans["ok"])}
        if layer == "cli" and op["op"] == "cli_sync" and "ok" in ans:
            return {"ok": ans["ok"]}
        if layer == "cli" and op["op"] == "cli_other" and "ok" in ans:
            return {"ok": ans["ok"][op["_want"]]}
        return ans

    # ---- the property on the real code ------------------------------------------------------
    def oracle(self, c, run):
        obs = self._observe(c)
        fails = []
        if c["family"] == "cli":
            s = obs["sync"]
            run.count("cli:sync:" + s["decision"].split(":")[0])
            if s["decision"].startswith("internal-error"):
                fails.append({"what": "accepted invocation ended in an internal error", "decision": s["decision"]})
            if s["decision"].startswith("exit"):
                fails.append({"what": "unexpected exit status", "decision": s["decision"]})
            if s["decision"] == "usage-error" and not s["untouched"]:
                fails.append({"what": "rejected invocation changed the file system"})
            # the rejections the property names explicitly
            tshape = c["kinds"][c["truth"]]["files"]
            nfiles = sum(len(c["kinds"][k]["files"] or []) for k in projgen.KINDS)
            must_reject = tshape is None or tshape[0] == "M" or nfiles < 2
            if must_reject and s["decision"] != "usage-error":
                fails.append(
                    {"what": "invocation that must be rejected (missing truth file / fewer than two files) was not", "decision": s["decision"], "changed": not s["untouched"]}
                )
            if s["decision"] == "accept":
                for n, t in s["after"].items():
                    if not parses(t):
                        fails.append({"what": "file does not parse after an accepted sync", "file": n})
            sp = obs["sync_properties"]
            if not (c["sp"][0] and c["sp"][1]) and sp["decision"] != "usage-error":
                fails.append({"what": "sync_properties with a missing input or output file was not rejected", "decision": sp["decision"]})
            if sp["decision"] == "usage-error" and not sp["untouched"]:
                fails.append({"what": "rejected sync_properties changed the file system"})
            if sp["decision"].startswith("internal-error"):
                fails.append({"what": "sync_properties ended in an internal error", "decision": sp["decision"]})
            g = obs["gen"]
            if c["gen_out_exists"] and (not g["untouched"] or g["decision"] == "accept" or (g["decision"] != "refuse" and g.get("spelled", "").startswith("/"))):
                fails.append({"what": "gen touched or did not refuse an existing output file", "decision": g["decision"], "spelled": g.get("spelled")})
            return fails
        oc = obs["outcome"]
        run.count("fault:base:" + oc[0])
        if oc[0] != "ok":
            fails.append({"what": "fault-free sync failed", "outcome": list(oc)})
            return fails
        run.count("fault:writes", len(obs["log"]))
        run.count("fault:injections", len(obs["runs"]))
        for rrun in obs["runs"]:
            after = rrun["after"]
            if rrun["outcome"][0] != "fault":
                fails.append({"what": "injected fault did not surface as the I/O error", "fault": rrun["fault"], "error_class": rrun.get("cls"), "outcome": list(rrun["outcome"])})
            for n in set(after) | set(obs["before"]):
                a, b, f = after.get(n), obs["before"].get(n), obs["final"].get(n)
                if a == b:
                    continue
                if n not in obs["before"] and n not in obs["final"]:
                    fails.append({"what": "stray file left behind", "fault": rrun["fault"], "error_class": rrun.get("cls"), "file": n})
                elif a is None:
                    fails.append({"what": "file deleted by a failed run", "fault": rrun["fault"], "error_class": rrun.get("cls"), "file": n})
                elif not parses(a):
                    fails.append({"what": "file truncated or syntactically broken after a fault", "fault": rrun["fault"], "error_class": rrun.get("cls"), "file": n, "content": a[:200]})
                elif a != f and a not in self._intermediate(obs, n):
                    fails.append({"what": "file neither old nor completely rewritten after a fault", "fault": rrun["fault"], "error_class": rrun.get("cls"), "file": n})
        return fails

    def _intermediate(self, obs, n):
        return {self._content_after_write(obs, j) for j, m in enumerate(obs["log"]) if m == n}

    def classify(self, c, fl):
        return None

    def shrink_candidates(self, c):
        return []


def _target_of(name):
    """the file a write-open is for: emit.file writes `<target>.doctrans.tmp` and moves it over `<target>`"""
    return name[: -len(".doctrans.tmp")] if name.endswith(".doctrans.tmp") else name


def _norm(d):
    return "internal-error" if d.startswith("internal-error") else d


def _mask(o, op):
    return o


def _strip_returns(cfg, r):
    """rebuild file contents from the return-free IRs"""
    for k, kd in cfg["kinds"].items():
        for f in kd["files"]:
            b, a = f.get("before", ""), f.get("after", "")
            if f["prestate"] in ("truth", "agreeing"):
                f["content"] = projgen.render(k, cfg["ir"], kd["name"], kd["method"], b, a)
            elif f["prestate"] == "stale":
                f["content"] = projgen.render(k, cfg["stale_ir"], kd["name"], kd["method"], b, a)
            elif f["prestate"] == "near":
                f["near_ir"]["returns"] = cfg["ir"]["returns"]
                f["content"] = projgen.render(k, f["near_ir"], kd["name"], kd["method"], b, a)
    return cfg


PROP = C20()
