"""Sub-process worker of C12: runs a fixed list of conversions (given on stdin as JSON lines) in the order and with
the repetitions asked for, under whatever PYTHONHASHSEED the parent set; prints one digest line per conversion id."""
import ast
import hashlib
import re
import json
import sys

sys.path.insert(0, sys.argv[1])
from harness import common  # noqa: E402

common.prime()
from harness import defgen, irutil, kinds  # noqa: E402
from harness import gen as G  # noqa: E402
from harness.astkinds import AstKindProp  # noqa: E402
from harness.common import exc_kind  # noqa: E402


def run_one(job, helper):
    from doctrans import parse as P

    try:
        if job["kind"] == "parse_def":
            f = job["facts"]
            if job["form"] == "class_init":
                mod = ast.parse(defgen.class_init_src(f))
                ir = P.class_(mod.body[0], merge_inner_function="__init__")
            else:
                mod = ast.parse(defgen.module_src(f))
                ir = P.function(mod.body[0].body[0] if f["method"] else mod.body[0])
            out = json.dumps(irutil.ir_to_json(ir), sort_keys=False, default=repr)
        elif job["kind"] == "parse_live":
            # an in-memory definition (the inspect.signature path): the module is written out and imported once per
            # process, the live object is handed to the parser every time the job is asked for
            fn = _live(job)
            ir = P.function(fn) if job["form"] == "function" else P.class_(fn)
            out = json.dumps(irutil.ir_to_json(ir), sort_keys=False, default=repr)
        elif job["kind"] == "hand":
            node = ast.parse(job["src"]).body[0]
            ir = {"argparse": P.argparse_ast, "class": P.class_, "function": P.function}[job["from"]](node)
            out = kinds.to_source(job["to"], kinds.emit(job["to"], ir, {}))
        elif job["kind"] == "hand_deco":
            # the decorators of an emitted class come out in the order they were asked for
            from doctrans import emit as E

            ir = P.class_(ast.parse(job["src"]).body[0])
            from doctrans.source_transformer import to_code

            out = to_code(E.class_(ir, class_name="Out", decorator_list=["dataclass", "total_ordering", "final", "register"]))
        elif job["kind"] == "emit":
            ir = helper.py_ir(job["ir"])
            out = kinds.to_source(job["to"], kinds.emit(job["to"], ir, job.get("opts", {})))
        else:  # chain: parse a definition, emit it as another kind, parse that
            f = job["facts"]
            mod = ast.parse(defgen.module_src(f))
            ir = P.function(mod.body[0].body[0] if f["method"] else mod.body[0])
            art = kinds.emit(job["to"], ir, {})
            out = kinds.to_source(job["to"], art)
    except Exception as e:
        out = "raises:" + exc_kind(e)
    # (an ast node left in a description by a recorded defect prints with its memory address: not a difference)
    out = re.sub(r" object at 0x[0-9a-fA-F]+>", " object>", out)
    return hashlib.sha1(out.encode()).hexdigest()[:16] + " " + out.replace("\n", "\\n")[:400]


_LIVE = {}


def _live(job):
    import importlib
    import os
    import tempfile

    if job["id"] not in _LIVE:
        d = tempfile.mkdtemp(prefix="c12live")
        name = "c12live_%s_%d" % (job["id"], os.getpid())
        with open(os.path.join(d, name + ".py"), "w") as fh:
            fh.write(job["src"])
        sys.path.insert(0, d)
        try:
            importlib.invalidate_caches()
            _LIVE[job["id"]] = getattr(importlib.import_module(name), job["name"])
        finally:
            sys.path.remove(d)
        import atexit
        import shutil

        atexit.register(shutil.rmtree, d, True)
    return _LIVE[job["id"]]


def main():
    spec = json.loads(sys.stdin.read())
    helper = AstKindProp()
    jobs = {j["id"]: j for j in spec["jobs"]}
    for jid in spec["order"]:
        sys.stdout.write("%s %s\n" % (jid, run_one(jobs[jid], helper)))


if __name__ == "__main__":
    main()
