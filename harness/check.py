"""Entry point: ./check <id> [--tier quick|thorough] [--replay file]"""
import argparse
import importlib
import os
import sys
import traceback


def main():
    ap = argparse.ArgumentParser()
    ap.add_argument("prop")
    ap.add_argument("--tier", default=os.environ.get("VERIF_TIER", "quick"), choices=["quick", "thorough"])
    ap.add_argument("--replay")
    a = ap.parse_args()
    seed = int(os.environ.get("VERIF_SEED", "0") or 0)
    try:
        from . import engine

        mod = importlib.import_module("harness.props.%s" % a.prop.lower())
        return engine.run_check(mod.PROP, a.tier, seed, a.replay)
    except Exception:
        traceback.print_exc()
        sys.stderr.write("HARNESS-ERROR %s\n" % a.prop)
        return 2


if __name__ == "__main__":
    sys.exit(main())
