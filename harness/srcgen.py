"""Generators of Python source for the location / sync properties (C11, C14, C15, C09...)."""
NAMES = ["a", "b", "q", "helper", "meth", "C", "D", "x", "attr", "f", "g"]


def gen_args(r, method, kwonly_p=0.3):
    n = r.randint(0, 3)
    names = r.sample(["a", "b", "q", "k", "x"], n)
    pos = []
    for nm in names:
        s = nm
        if r.random() < 0.5:
            s += ": " + r.choice(["int", "str", "Literal['a', 'b']", "Optional[int]"])
        pos.append(s)
    nd = r.randint(0, len(pos))
    for i in range(len(pos) - nd, len(pos)):
        pos[i] += (" = " if ":" in pos[i] else "=") + r.choice(["1", "'a'", "None", "(1, 2)", "'q'"])
    if method:
        pos = [r.choice(["self", "self", "cls"])] + pos
    kw = []
    if r.random() < kwonly_p:
        for nm in r.sample(["k1", "a2", "q"], r.randint(1, 2)):
            if nm in names:
                continue
            kw.append(nm + r.choice(["", ": int"]) + r.choice(["", " = 3", " = 'a'"]))
    s = ", ".join(pos)
    if kw:
        s += (", " if s else "") + "*, " + ", ".join(kw)
    if r.random() < 0.2:
        s += (", " if s else "") + "**kwargs"
    return s


def gen_func(r, name, method, ind):
    body = r.choice(["pass", "return 1", '"""doc a"""\n' + ind + "    return 'a'", "x = 'a'\n" + ind + "    return x"])
    kw = "async def" if r.random() < 0.12 else "def"  # a coroutine is a definition with a name like any other
    return "%s%s %s(%s):\n%s    %s\n" % (ind, kw, name, gen_args(r, method), ind, body)


def gen_class(r, name, ind="", depth=0):
    out = "%sclass %s(object):\n" % (ind, name)
    n = r.randint(1, 4)
    parts = []
    if r.random() < 0.3:
        parts.append(ind + '    """Class doc."""\n')
    for i in range(n):
        k = r.random()
        if k < 0.3:
            parts.append("%s    %s: %s = %s\n" % (ind, r.choice(NAMES), r.choice(["int", "str"]), r.choice(["1", "'a'", "'q'"])))
        elif k < 0.45:
            parts.append("%s    %s = %s\n" % (ind, r.choice(NAMES), r.choice(["1", "'a'", "'b'"])))
        elif k < 0.9 or depth > 0:
            parts.append(gen_func(r, r.choice(NAMES), True, ind + "    "))
        else:
            parts.append(gen_class(r, r.choice(["C", "D", "E"]), ind + "    ", depth + 1))
    return out + "".join(parts)


def gen_module(r, p_func=0.35):
    parts = []
    if r.random() < 0.3:
        parts.append('"""Module doc."""\n')
    if r.random() < 0.5:
        parts.append("import os\n")
    for i in range(r.randint(1, 5)):
        k = r.random()
        if k < p_func:
            parts.append(gen_func(r, r.choice(NAMES), False, ""))
        elif k < 0.75:
            parts.append(gen_class(r, r.choice(["C", "D", "E"])))
        elif k < 0.85:
            parts.append("%s: %s = %s\n" % (r.choice(NAMES), r.choice(["int", "str"]), r.choice(["1", "'a'"])))
        else:
            parts.append("%s = %s\n" % (r.choice(NAMES), r.choice(["1", "'a'", "'q'"])))
    return "".join(parts)
