"""IR transport, canonical forms and the `Same` relation (DESIGN §7)."""
import ast
import copy
from collections import OrderedDict

from .common import canon_val, val_to_json

NONE_TYPES = (None, "None", "```(None)```")


def param_to_json(p):
    d = {}
    if p.get("doc") is not None:
        d["doc"] = p["doc"]
    if p.get("typ") is not None:
        d["typ"] = p["typ"]
    if "default" in p:
        v = p["default"]
        d["default"] = val_to_json(v) if not isinstance(v, ast.AST) else {"t": "str", "v": "<ast>" + ast.dump(v)}
    return d


def ir_to_json(ir):
    """python IR (or generator IR with raw values) -> transport (values tagged)"""
    params = ir["params"].items() if isinstance(ir["params"], dict) else ir["params"]
    rets = ir.get("returns")
    if isinstance(rets, dict) and "return_type" in rets:
        rets = rets["return_type"]
    return {
        "doc": ir.get("doc"),
        "params": [[k, param_to_json(v)] for k, v in params],
        "returns": None if not rets else param_to_json(rets),
    }


def canon_param(d):
    return sorted([k, (canon_val(v) if k == "default" else v)] for k, v in d.items())


def canon_ir(j):
    """canonical comparable form of a transport IR (parameter ORDER is kept)"""
    return [
        j.get("doc"),
        [[k, canon_param(p)] for k, p in j["params"]],
        None if j.get("returns") is None else canon_param(j["returns"]),
    ]


def prose_core(doc):
    """prose modulo the default sentence and the single full stop set_default_doc inserts"""
    if doc is None:
        return None
    for ph in (" Defaults to ",):
        i = doc.find(ph)
        if i != -1:
            doc = doc[:i]
    doc = doc.rstrip()
    return doc[:-1] if doc.endswith(".") else doc


def same_default(a_has, a, b_has, b):
    if not a_has and not b_has:
        return True
    if a_has != b_has:
        return False
    if a in NONE_TYPES and b in NONE_TYPES:
        return True
    return type(a) is type(b) and a == b


def diff_param(name, want, got, check_default=True, ws=False, exact_prose=False):
    """-> list of human-readable differences between two python param dicts"""
    out = []
    if (want.get("typ") or None) != (got.get("typ") or None):
        out.append("%s: typ %r -> %r" % (name, want.get("typ"), got.get("typ")))
    core = (lambda x: x) if exact_prose else prose_core
    a, b = core(want.get("doc") or None), core(got.get("doc") or None)
    if ws:
        a, b = (None if a is None else " ".join(a.split())), (None if b is None else " ".join(b.split()))
    if (a or None) != (b or None):
        out.append("%s: prose %r -> %r" % (name, want.get("doc"), got.get("doc")))
    if name.endswith("kwargs") and "default" not in want and got.get("default", 0) in NONE_TYPES:
        pass  # a **kwargs parameter cannot carry a default; the parsers note `None` for it
    elif check_default and not same_default("default" in want, want.get("default"), "default" in got, got.get("default")):
        out.append(
            "%s: default %r -> %r" % (name, want.get("default", "<absent>"), got.get("default", "<absent>"))
        )
    return out


def diff_ir(want, got, check_default=True, ws=False, check_doc=True, exact_prose=False):
    """`Same`: differences between two python IRs (empty list = same interface)"""
    out = []
    wd, gd = want.get("doc"), got.get("doc")
    if ws:
        wd, gd = " ".join((wd or "").split()), " ".join((gd or "").split())
    if check_doc and (wd or "") != (gd or ""):
        out.append("summary %r -> %r" % (want.get("doc"), got.get("doc")))
    wn, gn = list(want["params"].keys()), list(got["params"].keys())
    if wn != gn:
        out.append("parameter names/order %r -> %r" % (wn, gn))
    for n in wn:
        if n in got["params"]:
            out += diff_param(n, want["params"][n], got["params"][n], check_default, ws, exact_prose)
    wr = (want.get("returns") or {}).get("return_type")
    gr = (got.get("returns") or {}).get("return_type")
    if (wr is None) != (gr is None):
        out.append("return entry %r -> %r" % (wr, gr))
    elif wr is not None:
        out += diff_param("return_type", wr, gr, check_default, ws, exact_prose)
    return out
