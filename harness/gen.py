"""
Generators for the property domain (DESIGN §4). Every random choice comes from
the `random.Random` instance handed in, so a case replays from its sub-seed.
"""
import ast
from collections import OrderedDict

WORDS = (
    "alpha beta gamma delta value size of the dataset name to use when training number rate flag path model "
    "batch epochs seed mode output input whether directory"
).split()
NAMES = ["a", "b", "c", "dataset_name", "tfds_dir", "K", "as_numpy", "lr", "n_epochs", "verbose", "x", "y1", "path",
         # names one of which ends with / contains another, and names that end with an underscore to stay clear of a
         # keyword or a builtin
         "rate", "learning_rate", "size", "batch_size", "type_", "id_"]
SCALARS = ["str", "int", "float", "bool"]
DOTTED = ["np.ndarray", "tf.Tensor", "Callable", "dict", "torch.nn.Module"]


def prose(r, lo=1, hi=6, punct=True, rich=True):
    ws = [r.choice(WORDS) for _ in range(r.randint(lo, hi))]
    if rich and r.random() < 0.12:
        ws.insert(r.randint(0, len(ws)), r.choice(["default", "by default", "the default mode", "Default"]))
    if rich and r.random() < 0.05:
        # characters whose case-folded form is LONGER than they are (ß -> ss, the fi ligature, dotted capital I)
        ws.insert(r.randint(0, len(ws)), r.choice(["Größe", "Straße", "con\ufb01g", "\u0130stanbul"]))
    if rich and r.random() < 0.1:
        # commas that are not followed by exactly one blank
        ws.insert(r.randint(0, len(ws)), r.choice(["10,000", "(x,y)", "0,5", "a,  b"]))
    s = " ".join(ws)
    if punct:
        k = r.random()
        if k < 0.35:
            s += "."
        elif k < 0.45:
            s += ","
        elif rich and k < 0.7:
            s += r.choice(
                [" (see docs)", ", e.g., `np` or `tf`", " 3.5 times", " (in %)", ". Second sentence", " `code`.", " 0.5."]
            )
    return s


def sized_prose(r, target):
    """prose of about `target` characters"""
    ws = []
    while len(" ".join(ws)) < target:
        ws.append(r.choice(WORDS))
    s = " ".join(ws)
    if len(s) > target + 6 and len(ws) > 1:
        s = " ".join(ws[:-1])
    return s + r.choice(["", ".", ","])


def lengthen(r, irj, lo=70, hi=240):
    """make some prose (and sometimes the summary) long enough to be wrapped at the default width"""
    for _, p in irj["params"]:
        if "doc" in p and " Defaults to " not in p["doc"] and r.random() < 0.5:
            p["doc"] = sized_prose(r, r.randint(lo, hi))
    if irj.get("returns") and "doc" in irj["returns"] and r.random() < 0.4:
        irj["returns"]["doc"] = sized_prose(r, r.randint(lo, hi))
    if r.random() < 0.4:
        irj["doc"] = sized_prose(r, r.randint(lo, hi)) + ("\n" + sized_prose(r, r.randint(20, 60)) if r.random() < 0.5 else "")
    return irj


def gen_type(r, depth=0, rich=True):
    k = r.random()
    if depth > 1 or k < 0.5 or not rich:
        return r.choice(SCALARS)
    k = r.random()
    if k < 0.3:
        return "Optional[%s]" % gen_type(r, depth + 1)
    if k < 0.5:
        return "List[%s]" % gen_type(r, depth + 1)
    if k < 0.65:
        if r.random() < 0.2:
            # numbers as members (a negative one is a unary minus in the syntax tree of the type, not a constant)
            return "Literal[%s]" % ", ".join(repr(x) for x in r.choice([[-1, 0, 1], [1, 2, 3], [0, 1], [-0.5, 0.5], [2, -2]]))
        return "Literal[%s]" % ", ".join(repr(x) for x in r.sample(WORDS + ["read only", "read write", "two words"], r.randint(1, 3)))
    if k < 0.78:
        return "Union[%s]" % ", ".join(gen_type(r, depth + 1) for _ in range(2))
    if k < 0.88:
        return "Tuple[%s]" % ", ".join(gen_type(r, depth + 1) for _ in range(2))
    return r.choice(DOTTED)


INTS = [0, 1, -1, 5, -17, 100, 7, 42, -2]
FLOATS = [0.0, 0.5, -1.5, 1e-07, 3.0, 100.25, 1e20, 2.5e-05, -0.001]
STRS = ["mnist", "~/data", "x", "a b", "word", "two words", "under_score", "UPPER", "8080", "1.0", "-3", "True", ",", "r",
        ", ", " -"]  # (the last two: white space at an end of the value - a separator, a bullet)
CODES = ["```np.zeros(3)```", "```(1, 2)```", "```[1, 2]```", "```{'a': 1}```", "```foo(1)```", "```x```", "```list(range(3)).copy()```", "```x[0].y```"]


def base_of(typ):
    """scalar name a default must be consistent with, or None"""
    if typ is None:
        return None
    if typ in SCALARS:
        return typ
    if typ.startswith("Optional[") and typ[9:-1] in SCALARS:
        return typ[9:-1]
    return "other"


def gen_default(r, typ, allow_code=True):
    """-> ('absent',) | ('val', v) with v type-consistent with typ"""
    if r.random() < 0.3:
        return ("absent",)
    if typ is not None and typ.startswith("Optional[") and r.random() < 0.3:
        return ("val", None)
    b = base_of(typ)
    # the falsy value of each type is a boundary of its own (truthiness tests in the code): a quarter of the draws
    zero = r.random() < 0.25
    if b == "int":
        return ("val", 0 if zero else r.choice(INTS))
    if b == "float":
        return ("val", 0.0 if zero else r.choice(FLOATS))
    if b == "bool":
        return ("val", r.choice([True, False]))
    if b == "str":
        return ("val", r.choice(STRS))
    if typ is None:
        return ("val", r.choice([3, -2, 0, 0.25, True, False, "word", None, -1.5]))
    inner = typ[len("Optional[") : -1] if typ.startswith("Optional[") and typ.endswith("]") else typ
    if inner.startswith("Literal["):
        opts = ast.literal_eval(inner[len("Literal") :])
        return ("val", r.choice(opts if isinstance(opts, list) else [opts]))
    if inner.startswith("Union[") and "str" in inner and r.random() < 0.4:
        return ("val", r.choice(STRS))  # a string under a union that admits one
    if allow_code:
        return ("val", r.choice(CODES + [None]))
    return ("absent",)


def gen_param(r, rich=True, p_typ=0.85, p_doc=0.85):
    typ = gen_type(r, rich=rich) if r.random() < p_typ else None
    p = {}
    if typ is not None:
        p["typ"] = typ
    if r.random() < p_doc:
        p["doc"] = prose(r, rich=rich)
    d = gen_default(r, typ)
    if d[0] == "val":
        p["default"] = d[1]
    return p


F_TYPS = ["int", "str", "float", "bool", "Optional[int]", "Optional[str]", "Optional[bool]", "List[str]", "List[int]",
          "Literal['alpha', 'beta']", "Literal['read only', 'read write']", "Union[int, float]", "Union[int, str]", "np.ndarray", None]  # fmt: skip
F_DOCS = ["plain", None, "comma", "optional-prefix", "two-sentences"]
F_DEFS = ["absent", "none", "zero", "nonzero", "code", "negative"]
F_SIZE = len(F_TYPS) * len(F_DOCS) * len(F_DEFS) * 3
# the walk advances by a stride coprime to the grid size (a prime): any stretch of a few hundred calls samples every
# axis of the grid evenly, instead of covering a contiguous block (which left whole type shapes out of a quick run)
F_STRIDE = 479
assert F_SIZE % F_STRIDE != 0
_focus = {"i": None}
P_FOCUS = 0.35


def _focus_shape(r, i, p_typ, p_doc):
    """-> (position, entry) for grid index i"""
    pos, i = i % 3, i // 3
    dk, i = F_DEFS[i % len(F_DEFS)], i // len(F_DEFS)
    pk, i = F_DOCS[i % len(F_DOCS)], i // len(F_DOCS)
    typ = F_TYPS[i % len(F_TYPS)]
    if typ is None and p_typ >= 1.0:
        typ = "int"
    if pk is None and p_doc >= 1.0:
        pk = "plain"
    f = {}
    if typ is not None:
        f["typ"] = typ
    if pk is not None:
        f["doc"] = {"plain": prose(r, 2, 5, punct=False, rich=False), "comma": "the loss, averaged over batches, twice",
                    "optional-prefix": r.choice(["(Optional) ", "Optional "]) + prose(r, 2, 4, punct=False, rich=False),
                    "two-sentences": "First part of it. Second sentence"}[pk]  # fmt: skip
    b = base_of(typ)
    if dk == "none":
        f["default"] = None
    elif dk == "code":
        f["default"] = r.choice(["```n```", "```x```", "```(1, 2)```", "```foo(1)```", "```np.zeros(3)```"])
    elif dk in ("zero", "nonzero", "negative"):
        z = dk == "zero"
        neg = dk == "negative"
        if b == "int":
            f["default"] = 0 if z else -3 if neg else r.choice([5, -3, 1])
        elif b == "float":
            f["default"] = 0.0 if z else -1.5 if neg else r.choice([0.5, -1.5, 1.0])
        elif b == "bool":
            f["default"] = not z
        elif b == "str":
            f["default"] = "" if z else r.choice(["mnist", "a b", "8080", "x", ","])  # (one character: a length boundary)
        elif typ is None:
            f["default"] = r.choice([0, False, 0.0]) if z else r.choice([3, True, 0.25, "word"])
        elif typ.startswith("Literal["):
            members = ast.literal_eval(typ[len("Literal") :])
            f["default"] = members[1] if z else members[0]
        elif typ == "List[int]":
            f["default"] = "```[]```" if z else "```[1, 2]```"
        elif typ == "Union[int, float]":
            f["default"] = 0 if z else -2 if neg else 1.5
        elif typ == "Union[int, str]":
            f["default"] = 0 if z else r.choice([-7, -0.5]) if neg else r.choice([-7, 3, "auto", -0.5])
        else:
            f["default"] = "```[]```" if z else "```['a']```"
    return pos, f


def focus_ir(r, p_typ=0.85, p_doc=0.85, returns=True):
    """
    Small-scope enumeration: a description of three parameters where ONE entry takes, call after call, every
    combination of (type shape x prose shape x default shape) at every position, between two plain neighbours.
    The walk starts at an offset drawn from the run's PRNG and advances by one per call, so a run of n calls covers
    n consecutive combinations and the thorough tier covers all of them several times.
    """
    if _focus["i"] is None:
        _focus["i"] = r.randrange(F_SIZE)
    i = _focus["i"] = (_focus["i"] + F_STRIDE) % F_SIZE
    names = r.sample(NAMES, 3)
    if r.random() < 0.5:
        # three enumerated entries at once (entries are converted independently of each other): strides apart so that
        # they differ in type shape too
        params = [(nm, _focus_shape(r, (i + k * (F_SIZE // 3 + 1)) % F_SIZE, p_typ, p_doc)[1]) for k, nm in enumerate(names)]
        ret = None
        if returns and r.random() < 0.3:
            ret = {"typ": r.choice(["int", "str", "List[int]"]), "doc": prose(r, 2, 4, punct=False, rich=False)}
        return {"doc": prose(r, 2, 6, rich=False), "params": params, "returns": ret}
    pos, f = _focus_shape(r, i, p_typ, p_doc)
    names = r.sample(NAMES, 3)
    params = []
    for k, nm in enumerate(names):
        if k == pos:
            params.append((nm, f))
        else:
            t = r.choice(["int", "str", "float"])
            q = {"typ": t, "doc": prose(r, 2, 5, punct=False, rich=False)}
            if r.random() < 0.5:
                q["default"] = {"int": 7, "str": "word", "float": 2.5}[t]
            params.append((nm, q))
    ret = None
    if returns and r.random() < 0.3:
        ret = {"typ": r.choice(["int", "str", "List[int]"]), "doc": prose(r, 2, 4, punct=False, rich=False)}
    return {"doc": prose(r, 2, 6, rich=False), "params": params, "returns": ret}


def gen_ir(r, maxp=5, kwargs=True, returns=True, rich=True, p_typ=0.85, p_doc=0.85, focus=True):
    if focus and maxp >= 3 and r.random() < P_FOCUS:
        return focus_ir(r, p_typ, p_doc, returns)
    n = r.randint(0, maxp)
    names = r.sample(NAMES, n)
    params = [(nm, gen_param(r, rich, p_typ, p_doc)) for nm in names]
    if rich and params and r.random() < 0.2:
        # a back-tick quoted code default under a subscripted type: the shape of code default the class kind (and, for
        # str-mentioning types or without default text, the function and docstring kinds) carries faithfully; short and
        # long expressions, no '.' before a bracket
        k = r.randrange(len(params))
        params[k] = (params[k][0], {"typ": r.choice(["List[str]", "Optional[List[str]]", "Union[str, int]", "Tuple[str, int]", "Optional[int]", "List[int]", "Union[int, float]"]),
                                    "doc": prose(r, rich=False),
                                    "default": r.choice(["```n```", "```5```", "```x```", "```(1, 2)```", "```[1, 2]```", "```foo(1)```", "```{'a': 1}```"])})  # fmt: skip
    if kwargs and r.random() < 0.2:
        kw = {"typ": "Optional[dict]", "doc": prose(r, rich=rich)}
        if r.random() < 0.3:
            kw["default"] = None
        params.append((r.choice(["kwargs", "data_loader_kwargs"]), kw))
    ret = None
    if returns and r.random() < 0.5:
        rt = {}
        if r.random() < p_typ:
            rt["typ"] = gen_type(r, rich=rich)
        if r.random() < p_doc:
            rt["doc"] = prose(r, rich=rich)
        if rich and r.random() < 0.25:
            rt["default"] = r.choice(["```np.empty(0)```", "```(1, 2)```", "```x```"])
        if rt:
            ret = rt
    doc = prose(r, 2, 8, rich=rich)
    if rich and r.random() < 0.25:
        doc += "\n" + prose(r, 2, 8, rich=rich)
    irj = {"doc": doc, "params": params, "returns": ret}
    if r.random() < 0.12:
        irj = post_parse_shape(r, irj)
    return irj


def default_sentence_forms(v, typ=None):
    """the text that follows 'Defaults to ' for value v: strings are quoted exactly when the declared type
    mentions `str` (what doctrans itself writes)"""
    if isinstance(v, str):
        return ['"%s"' % v] if (typ and ("str" in typ or "'" in typ or '"' in typ)) else [v]
    return [str(v)]


def post_parse_shape(r, irj, unquoted=False):
    """give the description the shape parsers return with default text kept: the prose of every defaulted
    entry ends with its own default sentence (and the default is still a separate key)"""
    for _, p in irj["params"]:
        if "default" in p and "doc" in p and p["default"] is not None:
            v = p["default"]
            if isinstance(v, str) and (v.startswith("```") or v == ""):
                continue
            doc = p["doc"]
            doc = doc if doc[-1] in ".," else doc + "."
            p["doc"] = doc + " Defaults to " + r.choice(default_sentence_forms(v, None if unquoted else p.get("typ")))
    return irj


def has_own_default_sentence(p):
    """prose ends with the default sentence of this entry's own default (value given raw or transport-tagged)"""
    if "default" not in p or not p.get("doc"):
        return False
    v = p["default"]
    if isinstance(v, dict):
        if v.get("t") == "none":
            return False
        v = {"int": lambda x: int(x), "float": lambda x: float(x)}.get(v["t"], lambda x: x)(v["v"])
    forms = set(default_sentence_forms(v, p.get("typ"))) | set(default_sentence_forms(v, None))
    return any(p["doc"].endswith(" Defaults to " + f) for f in forms)


def to_py_ir(j, name=None, type_="static"):
    """transport IR (lists, no OrderedDict) -> the dict doctrans expects"""
    return {
        "name": name,
        "type": type_,
        "doc": j["doc"],
        "params": OrderedDict((n, dict(p)) for n, p in j["params"]),
        "returns": None if j.get("returns") is None else OrderedDict((("return_type", dict(j["returns"])),)),
    }


def from_py_ir(ir):
    return {
        "doc": ir.get("doc"),
        "params": [[n, dict(p)] for n, p in (ir.get("params") or {}).items()],
        "returns": None if not ir.get("returns") else dict(ir["returns"]["return_type"]),
    }
