"""
Generated sync projects (C09, C10, C11, C20): a truth definition in one kind and targets of the
other kinds, each in one of the pre-states {missing, empty, absent, stale, agreeing}.
"""
import ast
import copy
import os
from argparse import Namespace

from . import gen as G

KINDS = ("argparse_function", "class", "function")
PRESTATES = ("missing", "empty", "absent", "stale", "agreeing", "rebound", "near")
OTHER_SRC = [
    "import os\n",
    "CONSTANT = 5\n",
    "def helper_fn(value):\n    return value\n",
    "class Unrelated(object):\n    attr: int = 1\n",
]
# what a hand-written file starts with: a module docstring (one line / several lines with their own indentation), a comment
HEADERS = [
    '"""Methods of the project."""\n',
    '"""\nModule docstring of the project.\n\n    An indented second paragraph.\n"""\n\nimport os\n',
    "# -*- coding: utf-8 -*-\n# a comment\nimport os\n",
    "PAGE_BREAK = '\x0c'  # a raw form feed inside the literal\nBANNER = \"\"\"page 1\x0cpage 2\n\"\"\"\n",
    # the export list of a hand-written module: a string literal equal to the simple name of the definition, before it
    '__all__ = ["@NAME@"]\n',
    '"""The public names."""\n\n__all__ = ["helper_fn", "@NAME@"]\n\nLABEL = "@NAME@"\n',
    # a namesake one level down, before the definition: a nested class / a class attribute with the simple name
    'class Registry(object):\n    """Holds the known ones."""\n\n    class @NAME@(object):\n        """A nested namesake."""\n\n        kind = "inner"\n\n',
    'class Registry(object):\n    """Holds the known ones."""\n\n    @NAME@: type = object\n\n',
    # a coroutine at module level, before the definition
    'import asyncio\n\n\nasync def refresh(session, timeout=3):\n    """Refresh it."""\n    return session\n\n\n',
]


def core_ir(r, nmax=3, returns=None):
    """interface descriptions every kind can carry (typed, described, type-consistent defaults)"""
    n = r.randint(1, nmax)
    names = r.sample(G.NAMES, n)
    params = []
    for nm in names:
        typ = r.choice(G.SCALARS + ["Optional[int]", "Optional[str]"])
        p = {"typ": typ, "doc": G.prose(r, 1, 4, rich=False)}
        if typ.startswith("Optional[") and r.random() < 0.4:
            p["doc"] = r.choice(["Optional ", "(Optional) "]) + p["doc"]  # (the parsers read this prefix as a type hint)
        d = G.gen_default(r, typ, allow_code=False)
        if d[0] == "val":
            p["default"] = d[1]
        if typ == "str" and r.random() < 0.1:
            p["default"] = r.choice(['"', "'"])  # a value that IS a quotation mark (a CSV dialect's quotechar)
        params.append((nm, p))
    ret = None
    if returns if returns is not None else r.random() < 0.3:
        ret = {"typ": r.choice(G.SCALARS), "doc": G.prose(r, 1, 3, rich=False)}
    return {"doc": G.prose(r, 2, 5, rich=False), "params": params, "returns": ret}


def near_ir(r, ir):
    """the description with ONE small difference: a default of equal value but another type (1 / True / 1.0), a
    default that differs in white space inside the string only, one word of one prose, one type"""
    out = copy.deepcopy(ir)
    params = out["params"]
    cands = []
    for k, (n, p) in enumerate(params):
        d = p.get("default")
        if isinstance(d, bool):
            cands.append((k, "default", int(d)))
        elif isinstance(d, int):
            cands.append((k, "default", float(d)))
            if d in (0, 1):
                cands.append((k, "default", bool(d)))
        elif isinstance(d, float) and d == int(d):
            cands.append((k, "default", int(d)))
        elif isinstance(d, str) and " " in d:
            cands.append((k, "default", d.replace(" ", "  ", 1)))
        elif isinstance(d, str) and d:
            cands.append((k, "default", d + " "))
        if p.get("doc"):
            cands.append((k, "doc", p["doc"].replace(" ", "  ", 1) if r.random() < 0.3 and " " in p["doc"] else "changed " + p["doc"]))
        if p.get("typ") in ("int", "float"):
            cands.append((k, "typ", {"int": "float", "float": "int"}[p["typ"]]))
    if len(params) > 1 and r.random() < 0.25:
        # the same entries in another order (nothing else differs)
        k = r.randrange(1, len(params))
        out["params"] = params[k:] + params[:k]
        return out
    if not cands:
        out["doc"] = "changed " + out["doc"]
        return out
    typed = [c for c in cands if c[1] == "default"]
    k, field, v = r.choice(typed if typed and r.random() < 0.7 else cands)
    params[k] = (params[k][0], dict(params[k][1], **{field: v}))
    return out


def default_name(kind, method):
    if kind == "class":
        return "ConfigClass"
    if kind == "argparse_function":
        return "set_cli_args"
    return "C.method_name" if method else "call_peril"


def emit_node(kind, ir_j, name, method=False):
    from doctrans import emit

    ir = G.to_py_ir(copy.deepcopy(ir_j))
    if kind == "class":
        return emit.class_(ir, class_name=name.split(".")[-1])
    if kind == "argparse_function":
        return emit.argparse_function(ir, function_name=name)
    return emit.function(ir, function_name=name.split(".")[-1], function_type="self" if method else "static")


def render(kind, ir_j, name, method=False, before="", after=""):
    """source text of a file holding the definition (methods are wrapped in their class)"""
    from black import Mode, format_str

    node = emit_node(kind, ir_j, name, method)
    if method and "." in name:
        node = ast.ClassDef(name=name.split(".")[0], bases=[ast.Name("object", ast.Load())], keywords=[], body=[node], decorator_list=[], type_params=[])
    src = ast.unparse(ast.fix_missing_locations(ast.Module(body=[node], type_ignores=[])))
    src = format_str(src, mode=Mode(target_versions=set(), line_length=119, is_pyi=False, string_normalization=False))
    return before + src + after


def gen_project(r, n_kinds=None, prestates=PRESTATES, allow_method=True, allow_before=True, multi=False):
    """-> cfg (JSON-serialisable): truth kind, per kind: name, method flag, files [{name, prestate, content}]"""
    truth = r.choice(KINDS)
    kinds = list(KINDS)
    if (n_kinds or r.choice([2, 3, 3])) == 2:
        drop = r.choice([k for k in KINDS if k != truth])
        kinds.remove(drop)
    ir = core_ir(r)
    stale = core_ir(r)
    cfg = {"truth": truth, "ir": ir, "stale_ir": stale, "kinds": {}}
    for k in kinds:
        method = allow_method and k == "function" and r.random() < 0.4
        name = default_name(k, method)
        if allow_method and k == "class" and r.random() < 0.2:
            method, name = True, "Outer.ConfigClass"  # a class nested in another class ("method" = dotted name)
        files = []
        if k == truth:
            tb = (r.choice(HEADERS) if allow_before and r.random() < 0.3 else "").replace("@NAME@", name.split(".")[-1])
            files.append({"name": "truth_%s.py" % k, "prestate": "truth", "content": render(k, ir, name, method, tb), "before": tb, "after": ""})
            extra = r.randint(0, 1) if multi else 0
        else:
            extra = r.randint(1, 2) if multi else 1
        for i in range(extra):
            ps = r.choice(list(prestates) + (["near", "near"] if "near" in prestates else []))
            before = (r.choice(OTHER_SRC[:2] + HEADERS + [""]) if allow_before and r.random() < 0.5 else "").replace("@NAME@", name.split(".")[-1])
            after = r.choice(OTHER_SRC[1:2]) if r.random() < 0.3 else ""
            if ps == "missing":
                content = None
            elif ps == "empty":
                content = ""
            elif ps == "rebound" and k == "class":
                # the class name is bound to something that is not a class (an assignment, a function parameter)
                sn = name.split(".")[-1]
                content = before + r.choice(["%s = make(%r)\n" % (sn, sn), "def factory(%s=None):\n    return %s\n" % (sn, sn)])
            elif ps == "rebound":
                ps = "absent"
                content = before or "import os\n"
            elif ps == "absent":
                content = before or "import os\n"
                if r.random() < 0.3:
                    # the last line is not terminated - and ends with a blank, a tab, or is a dangling indentation
                    content = content.rstrip("\n") + r.choice(["", " ", "\t", "  # end ", "\n    "])
            elif ps == "stale":
                content = render(k, stale, name, method, before, after)
            elif ps == "near":
                nir = near_ir(r, ir)
                content = render(k, nir, name, method, before, after)
            else:
                content = render(k, ir, name, method, before, after)
            if i >= 1 and files[-1]["prestate"] == "stale" and files[-1]["name"].startswith(k + "_") and r.random() < 0.85:
                # two targets of one kind with byte-identical stale contents (copies of one template file)
                ps, content, before, after = "stale", files[-1]["content"], files[-1]["before"], files[-1]["after"]
            files.append({"name": "%s_%d.py" % (k, i), "prestate": ps, "content": content, "before": before, "after": after})
            if ps == "near":
                files[-1]["near_ir"] = nir
        cfg["kinds"][k] = {"name": name, "method": method, "files": files}
    return cfg


def materialise(cfg, root):
    for k, kd in cfg["kinds"].items():
        for f in kd["files"]:
            p = os.path.join(root, f["name"])
            if os.path.dirname(f["name"]):
                os.makedirs(os.path.dirname(p), exist_ok=True)  # (the directory exists even when the file is missing)
            if f["content"] is not None:
                with open(p, "w") as fh:
                    fh.write(f["content"])


def namespace(cfg, root):
    d = {"truth": cfg["truth"]}
    for k in KINDS:
        kd = cfg["kinds"].get(k)
        plural = {"argparse_function": "argparse_functions", "class": "classes", "function": "functions"}[k]
        names = None if kd is None else [os.path.join(root, f["name"]) for f in kd["files"]]
        if names and k == cfg["truth"] and cfg.get("truth_last") and len(names) > 1:
            names = names[1:] + names[:1]  # (API only: the truth is named by `truth_file`, not by its place in the list)
        d[plural] = names
        d[k + "_names"] = None if kd is None else [kd["name"]]
    return Namespace(**d)


def argv(cfg, root):
    out = ["sync", "--truth", cfg["truth"]]
    flag = {"argparse_function": "--argparse-function", "class": "--class", "function": "--function"}
    for k in KINDS:
        kd = cfg["kinds"].get(k)
        if kd is None:
            continue
        for f in kd["files"]:
            out += [flag[k], os.path.join(root, f["name"])]
        out += [flag[k] + "-name", kd["name"]]
    return out


def truth_path(cfg, root):
    return os.path.join(root, cfg["kinds"][cfg["truth"]]["files"][0]["name"])


def snapshot(root):
    out = {}
    for d, _, files in sorted(os.walk(root)):
        for f in sorted(files):
            p = os.path.join(d, f)
            with open(p, "rb") as fh:
                out[os.path.relpath(p, root)] = fh.read().decode("utf-8", "replace")
    return out
