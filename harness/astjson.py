"""Python `ast` <-> the model's generic tree (DESIGN §4 'AST transport')."""
import ast


def atom(v):
    if v is None or isinstance(v, (str, bool)):
        return v
    if isinstance(v, int):
        return v
    return {"o": repr(v)}


def node_to_json(n):
    fs = []
    for name in n._fields:
        if not hasattr(n, name):
            fs.append([name, {"m": None}])
            continue
        v = getattr(n, name)
        if isinstance(v, ast.AST):
            fs.append([name, {"n": node_to_json(v)}])
        elif isinstance(v, list):
            fs.append([name, {"l": [{"n": node_to_json(x)} if isinstance(x, ast.AST) else {"a": atom(x)} for x in v]}])
        else:
            fs.append([name, {"a": atom(v)}])
    return {"k": type(n).__name__, "f": fs}


def item_to_json(v):
    return {"n": node_to_json(v)} if isinstance(v, ast.AST) else {"a": atom(v)}
