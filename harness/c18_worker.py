"""Sub-process worker of C18: DOCTRANS_LINE_LENGTH is read once at import, so every width gets its own process.
stdin: one JSON case per line; stdout: one JSON result per line."""
import json
import sys

sys.path.insert(0, sys.argv[1])  # /verif
from harness import common  # noqa: E402

common.prime()
from harness import gen as G  # noqa: E402
from harness import irutil, kinds  # noqa: E402
from harness.astkinds import AstKindProp  # noqa: E402
from harness.common import exc_kind  # noqa: E402


def main():
    from doctrans.pure_utils import fill, line_length

    helper = AstKindProp()
    for line in sys.stdin:
        c = json.loads(line)
        out = {"line_length": line_length}
        if "fill" in c:
            res = []
            for t in c["fill"]:
                try:
                    res.append({"ok": fill(t)})
                except Exception as e:
                    res.append({"raises": exc_kind(e)})
            out["fill"] = res
            # the other half: what the parser reads back from the wrapped text, each line indented as an emitter would
            from doctrans.docstring_parsers import _set_name_and_type

            un = []
            for k, t in enumerate(c["fill"]):
                try:
                    pad = ["", "    ", "        ", "  \t"][k % 4]
                    wrapped = "\n".join((pad if i else "") + l for i, l in enumerate(fill(t).split("\n")))
                    _, p = _set_name_and_type(("probe", {"doc": wrapped, "typ": "int"}), False, True)
                    un.append({"text": wrapped, "ok": p["doc"]})
                except Exception as e:
                    un.append({"text": t, "raises": exc_kind(e)})
            out["unwrap"] = un
        else:
            ir = helper.py_ir(c["ir"])
            for tag, ww in (("wrapped", True), ("unwrapped", False)):
                o = dict(c["opts"], word_wrap=ww)
                try:
                    art = kinds.emit(c["kind"], ir, o)
                    text = kinds.to_source(c["kind"], art)
                    out[tag + "_text"] = text
                except Exception as e:
                    out[tag + "_emit"] = exc_kind(e)
                    continue
                try:
                    back = kinds.parse(c["kind"], art)
                    out[tag + "_ir"] = irutil.ir_to_json(back)
                except Exception as e:
                    out[tag + "_parse"] = exc_kind(e)
                    continue
                # the next emission from what was read back (no wrapping): whatever line breaks the parser left in the
                # description show here
                try:
                    import copy

                    out[tag + "_again"] = kinds.to_source(c["kind"], kinds.emit(c["kind"], copy.deepcopy(back), dict(c["opts"], word_wrap=False)))
                except Exception as e:
                    out[tag + "_again"] = "raises:" + exc_kind(e)
        sys.stdout.write(json.dumps(out) + "\n")
        sys.stdout.flush()


if __name__ == "__main__":
    main()
