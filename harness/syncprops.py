"""C09 / C10 / C11: the sync properties (shared generation and correspondence, one predicate each)."""
import ast
import json
import random

from . import gen as G
from . import projgen, syncbase
from .engine import Prop


class SyncProp(Prop):
    quick_cases = 200
    thorough_cases = 900
    time_budget = {"quick": 150, "thorough": 1500}
    n_runs = 2
    rule = (
        "case = a generated sync project: truth kind in {argparse_function, class, function}; 2 or 3 kinds; 1-2 target "
        "files per kind, each in a pre-state missing/empty/absent/stale/agreeing, function targets as top-level functions "
        "or methods, other statements before/after the definition; interface = 1-3 typed, described parameters with "
        "type-consistent defaults; run through the Python API or the command line. Every _conform_filename call is one "
        "model-correspondence operation. Non-trivial = at least one target not already agreeing; distinct by project JSON."
    )

    def gen(self, r, i, run):
        cfg = projgen.gen_project(random.Random(r.randrange(1 << 30)), multi=True)
        if r.random() < 0.12:
            # a directed family: a function truth next to a class kind and no argparse kind (the shape in which a function
            # truth can carry a body, see below)
            for _ in range(40):
                if cfg["truth"] == "function" and set(cfg["kinds"]) == {"class", "function"}:
                    break
                cfg = projgen.gen_project(random.Random(r.randrange(1 << 30)), multi=True)
        # a return entry (type and prose, no default) in 30% of the projects; stale targets never have one
        if not (cfg["ir"].get("returns") and r.random() < 0.6):
            cfg["ir"]["returns"] = None
        cfg["stale_ir"]["returns"] = None
        run.dist["truth_has_return_entry"][cfg["ir"]["returns"] is not None] += 1
        for k, kd in cfg["kinds"].items():
            for f in kd["files"]:
                run.dist["prestate"]["%s:%s%s" % (k, f["prestate"], ":method" if kd["method"] else "")] += 1
        from .props.c20 import _strip_returns

        cfg = _strip_returns(cfg, r)
        # without trailing newline in some existing files
        for kd in cfg["kinds"].values():
            for f in kd["files"]:
                if f["content"] and f["prestate"] != "truth" and r.random() < 0.25:
                    f["content"] = f["content"].rstrip("\n")
        # one existing target file named for two kinds (`--class F --argparse-function F`): the second kind's
        # definition is added to the file the first kind's step has just rewritten
        shared = False
        if r.random() < 0.2:
            hosts = [(k, f) for k, kd in cfg["kinds"].items() for f in kd["files"] if f["content"] and f["prestate"] != "truth" and not kd["method"]]
            if hosts:
                hk, hf = r.choice(hosts)
                guests = [(k, f) for k, kd in cfg["kinds"].items() for f in kd["files"] if k not in (hk, cfg["truth"]) and not kd["method"] and f["prestate"] != "truth"]
                if guests:
                    gk, gf = r.choice(guests)
                    gf.update({"name": hf["name"], "prestate": "shared", "content": None})
                    shared = True
        run.dist["shared_target_file"][shared] += 1
        # a package layout: every target in a directory of its own, all under the file name of the truth
        # (`pkg_a/config.py` is the truth's namesake, not the truth)
        pkg = not shared and r.random() < 0.25
        if pkg:
            tname = cfg["kinds"][cfg["truth"]]["files"][0]["name"]
            for k, kd in cfg["kinds"].items():
                for j, f in enumerate(kd["files"]):
                    if f["prestate"] != "truth":
                        f["name"] = "pkg_%s_%d/%s" % (k, j, tname)
        run.dist["package_layout"][pkg] += 1
        run.dist["truth"][cfg["truth"]] += 1
        via_cli = r.random() < 0.4
        # through the API the truth is named by `truth_file`: it need not be the first file listed for its kind
        if not via_cli and len(cfg["kinds"][cfg["truth"]]["files"]) > 1 and r.random() < 0.5:
            cfg["truth_last"] = True
        run.dist["truth_listed_last"][bool(cfg.get("truth_last"))] += 1
        # a hand-written truth function DOES something: a body that ends by returning its parameters (what is written to
        # a function target must return the same expression, not one rewritten for another kind)
        cfg["truth_return"] = None
        # (not with an argparse target: a returned expression cannot be carried by the argparse kind - the recorded
        # finding about the argparse return entry, C03/C04)
        if cfg["truth"] == "function" and cfg["ir"].get("returns") is None and "argparse_function" not in cfg["kinds"]:
            tkd = cfg["kinds"]["function"]
            tf = next(f for f in tkd["files"] if f["prestate"] == "truth")
            names = [n for n, _ in cfg["ir"]["params"]]
            expr = names[0] if len(names) == 1 or r.random() < 0.5 else "(%s)" % ", ".join(names[:2])
            ind = " " * (8 if tkd["method"] and "." in tkd["name"] else 4)
            tf["content"] = tf["content"].rstrip("\n") + "\n%stotal = %s\n%sreturn %s\n" % (ind, names[0], ind, expr)
            cfg["truth_return"] = expr
        run.dist["truth_function_returns_parameters"][cfg["truth_return"] is not None] += 1
        return {"cfg": cfg, "via_cli": via_cli}

    def nontrivial(self, c):
        return any(f["prestate"] not in ("truth", "agreeing") for kd in c["cfg"]["kinds"].values() for f in kd["files"])

    def describe(self, c):
        cfg = c["cfg"]
        return {
            "truth": cfg["truth"],
            "via_cli": c["via_cli"],
            "targets": {k: [(f["prestate"], kd["method"]) for f in kd["files"]] for k, kd in cfg["kinds"].items()},
            "params": [n for n, _ in cfg["ir"]["params"]],
        }

    def observe(self, c):
        key = json.dumps(c, sort_keys=True, default=repr)
        if getattr(self, "_ck", None) != key:
            self._cv = syncbase.run_syncs(c["cfg"], n_runs=self.n_runs, via_cli=c["via_cli"], truths=c.get("truths"))
            self._ck = key
        return self._cv

    def corr(self, c, run):
        obs = self.observe(c)
        res = []
        for rr in obs["runs"]:
            for rec in rr["files"]:
                if "report" not in rec:
                    continue  # the call raised; the predicate reports it
                op = {
                    "op": "conform",
                    "exists": bool(rec["exists"]),
                    "found": bool(rec["found"]),
                    "cmp_eq": bool(rec["cmp_eq"]),
                    "replaced": bool(rec["replaced"]),
                    "same_program": bool(rec["same_program"]),
                }
                res.append(("conform", op, {"ok": {"action": syncbase.action_of(rec), "report": rec["report"]}}))
            # the report of the whole run: `effect[filename] = effect.get(filename, False) or modified` over all calls
            if rr.get("effect") is not None and all("report" in rec for rec in rr["files"]):
                calls = [[rec["file"], bool(rec["report"])] for rec in rr["files"]]
                res.append(("report", {"op": "report", "calls": calls}, {"ok": [[k, bool(v)] for k, v in rr["effect"].items()]}))
        return res

    def shrink_candidates(self, c):
        import copy

        cfg = c["cfg"]
        for k, kd in cfg["kinds"].items():
            if k != cfg["truth"] and len(cfg["kinds"]) > 2:
                d = copy.deepcopy(c)
                del d["cfg"]["kinds"][k]
                yield d
            for j, f in enumerate(kd["files"]):
                if f["prestate"] != "truth" and len(kd["files"]) > 1:
                    d = copy.deepcopy(c)
                    del d["cfg"]["kinds"][k]["files"][j]
                    yield d

    # ---- known finding classes shared by the three properties -----------------------------
    def target_class(self, cfg, k, kd, f):
        """finding class of one target file, or None"""
        src = f["content"]
        if f["prestate"] == "truth":
            return None
        if kd["method"] and (src is None or syncbase.locate(src, kd["name"].split(".")[0]) is None):
            return "SYNC-method-target-without-its-class"
        if src and _function_before(src, kd["name"]):
            return "SYNC-D11-function-before-target"
        if f["prestate"] in ("stale", "near") and k in ("function", "argparse_function"):
            return "SYNC-D13-stale-function-target-not-updated"
        return None


def _function_before(src, name):
    try:
        m = ast.parse(src)
    except SyntaxError:
        return False
    from .props.c15 import _d11

    return _d11(m.body, name.split("."))


# ------------------------------------------------------------------------------------------------
class C09(SyncProp):
    id = "C09"
    n_runs = 1

    def oracle(self, c, run):
        obs = self.observe(c)
        cfg = c["cfg"]
        rr = obs["runs"][0]
        fails = []
        if rr["outcome"] != "ok":
            return [{"what": "sync did not complete", "outcome": rr["outcome"]}]
        after = obs["snap"][1]
        tk = cfg["truth"]
        tkd = cfg["kinds"][tk]
        try:
            parsed_truth = syncbase.parse_def(tk, after[tkd["files"][0]["name"]], tkd["name"])
        except Exception as e:
            return [{"what": "truth no longer parses after sync", "exc": type(e).__name__}]
        if parsed_truth is None or parsed_truth == "syntax-error":
            return [{"what": "truth definition missing after sync"}]
        # the interface the truth file was written from; its explicit defaults are the ones that must
        # survive (parsing a class / argparse truth adds that kind's documented zero-value defaults)
        truth_ir = G.to_py_ir(cfg["ir"])
        d0 = syncbase.agrees(truth_ir, parsed_truth)
        if d0:
            fails.append({"what": "the truth itself does not describe the generated interface", "diffs": d0, "_class": None})
        for k, kd in cfg["kinds"].items():
            for f in kd["files"]:
                cls = self.target_class(cfg, k, kd, f)
                run.count("target:%s" % (cls or "in-domain"))
                src = after.get(f["name"])
                tag = {"kind": k, "prestate": f["prestate"], "method": kd["method"], "file": f["name"], "_class": cls}
                if src is None:
                    fails.append(dict(tag, what="target file does not exist after sync"))
                    continue
                try:
                    got = syncbase.parse_def(k, src, kd["name"])
                except Exception as e:
                    fails.append(dict(tag, what="target does not parse back", exc=type(e).__name__))
                    continue
                if got == "syntax-error":
                    fails.append(dict(tag, what="target file is not valid Python after sync"))
                elif got is None:
                    fails.append(dict(tag, what="definition absent from target after sync"))
                else:
                    d = syncbase.agrees(truth_ir, got)
                    if d:
                        fails.append(dict(tag, what="target disagrees with the truth after sync", diffs=d))
                    # a function target written by this sync from a function truth that returns its parameters: the
                    # returned expression is the truth's
                    if cfg.get("truth_return") and k == "function" and f["prestate"] in ("missing", "empty", "absent") and not d:
                        rd = ((got.get("returns") or {}).get("return_type") or {}).get("default")
                        if rd is not None and str(rd).strip("`") != cfg["truth_return"]:
                            fails.append(dict(tag, what="function target written by sync returns another expression than the truth", want=cfg["truth_return"], got=str(rd)))
        return fails

    def classify(self, c, fl):
        return fl.get("_class")


class C10(SyncProp):
    id = "C10"
    n_runs = 3

    def gen(self, r, i, run):
        c = super().gen(r, i, run)
        kinds = list(c["cfg"]["kinds"].keys())
        if r.random() < 0.3:
            # alternating truth kinds: every kind needs an existing, well-formed first file
            ok = all(kd["files"][0]["content"] and kd["files"][0]["prestate"] in ("truth", "agreeing") for kd in c["cfg"]["kinds"].values())
            if ok:
                c["truths"] = [c["cfg"]["truth"]] + [r.choice(kinds) for _ in range(self.n_runs - 1)]
        run.dist["history"]["alternating" if c.get("truths") else "same-truth"] += 1
        return c

    def oracle(self, c, run):
        obs = self.observe(c)
        cfg = c["cfg"]
        fails = []
        classes = {f["name"]: self.target_class(cfg, k, kd, f) for k, kd in cfg["kinds"].items() for f in kd["files"]}
        for i, rr in enumerate(obs["runs"]):
            if rr["outcome"] != "ok":
                fails.append({"what": "sync did not complete", "run": i, "outcome": rr["outcome"]})
                return fails
            before, after = obs["snap"][i], obs["snap"][i + 1]
            truth_kind = rr["truth"]
            tname = cfg["kinds"][truth_kind]["files"][0]["name"]
            changed = {n for n in set(before) | set(after) if before.get(n) != after.get(n)}
            # (1) the truth is never edited
            if tname in changed:
                fails.append({"what": "the truth file was modified by the sync naming it as truth", "run": i, "file": tname, "_class": None})
            # (2) the report is true exactly for the files whose bytes changed
            eff = rr.get("effect")
            if eff is not None:
                for n, rep in eff.items():
                    if rep != (n in changed):
                        fails.append({"what": "changed/unchanged report is wrong", "run": i, "file": n, "reported": rep, "bytes_changed": n in changed, "_class": classes.get(n)})
                for line in rr["printed"].splitlines():
                    parts = line.split("\t")
                    if len(parts) == 2 and parts[0] in ("modified", "unchanged"):
                        n = parts[1]  # (run_syncs has made the printed paths relative to the project root)
                        multi = sum(1 for kd in cfg["kinds"].values() for f in kd["files"] if f["name"] == n) > 1
                        if multi and parts[0] == "unchanged":
                            continue  # printed per step: another step of the same run may have changed the file
                        if (parts[0] == "modified") != (n in changed):
                            fails.append({"what": "printed modified/unchanged line is wrong", "run": i, "file": n, "printed": parts[0], "_class": classes.get(n)})
            # (3) convergence: with an unchanged truth, nothing changes after the first run
            same_truth_as_prev = i > 0 and obs["runs"][i - 1]["truth"] == truth_kind
            if same_truth_as_prev:
                for n in changed:
                    fails.append({"what": "a repeated sync changed a file again", "run": i, "file": n, "_class": classes.get(n)})
        return fails

    def classify(self, c, fl):
        return fl.get("_class")


class C11(SyncProp):
    id = "C11"
    n_runs = 1

    def gen(self, r, i, run):
        c = super().gen(r, i, run)
        # richer surroundings: statements before and after the definition in existing targets
        from . import srcgen

        for k, kd in c["cfg"]["kinds"].items():
            for f in kd["files"]:
                if f["content"] and f["prestate"] in ("stale", "near", "agreeing", "absent") and r.random() < 0.7:
                    rr = random.Random(r.randrange(1 << 30))
                    long_doc = 'def load(path):\n    """\n    Load it.\n\n    %s"""\n    return path\n' % ("w" * rr.randint(96, 112))
                    shadow = ["class %s(object):\n    attr: int = 1\n" % kd["name"].split(".")[-1]] if k == "class" and "." in kd["name"] else []
                    # (signatures of every shape: positional-only, keyword-only, star arguments, async, decorated)
                    sigs = ["def scale(value, factor=2, /, offset=0):\n    return value\n",
                            "class Helper(object):\n    def clamp(self, lo, /, hi=1, *rest, key=None, **kw):\n        return lo\n",
                            "async def fetch(url, /, *, timeout=3):\n    return url\n",
                            "import functools\n\n\n@functools.lru_cache(maxsize=None)\ndef cached(n, /):\n    return n\n"]
                    before = "".join(rr.choice(projgen.OTHER_SRC + sigs + shadow + shadow + ["X: int = 3\n", "PAGE_BREAK = '\x0c'\n", "class Other(object):\n    def method_name(self, a=1):\n        return a\n"]) for _ in range(rr.randint(0, 2)))
                    simple = kd["name"].split(".")[0]
                    after = "".join(rr.choice(projgen.OTHER_SRC[1:] + ["def later(value, a=2):\n    return value\n", long_doc] + sigs[:3] + (["%s = register(%s)\n" % (simple, simple)] if k == "class" and f["prestate"] in ("stale", "near", "agreeing") else [])) for _ in range(rr.randint(0, 2)))
                    nl = "" if f["content"].endswith("\n") else "\n"
                    new = before + f["content"] + nl + after
                    if r.random() < 0.3:
                        new = new.rstrip("\n")
                    try:
                        ast.parse(new)
                        f["content"] = new
                    except SyntaxError:
                        pass
        return c

    def oracle(self, c, run):
        obs = self.observe(c)
        cfg = c["cfg"]
        rr = obs["runs"][0]
        fails = []
        if rr["outcome"] != "ok":
            return [{"what": "sync did not complete", "outcome": rr["outcome"]}]
        before, after = obs["snap"][0], obs["snap"][1]
        for k, kd in cfg["kinds"].items():
            for f in kd["files"]:
                n = f["name"]
                if n not in before or f["prestate"] == "shared":
                    continue
                cls = None
                tc = self.target_class(cfg, k, kd, f)
                if tc in ("SYNC-method-target-without-its-class", "SYNC-D11-function-before-target"):
                    cls = tc
                tag = {"file": n, "kind": k, "prestate": f["prestate"], "_class": cls}
                try:
                    ast.parse(after[n])
                except SyntaxError:
                    fails.append(dict(tag, what="file does not parse after sync", content=after[n][:300]))
                    continue
                # (every definition the sync was asked to put into this file is "addressed")
                addressed = [kd2["name"] for kd2 in cfg["kinds"].values() for f2 in kd2["files"] if f2["name"] == n]
                try:
                    b = syncbase.other_statements(before[n], addressed)
                except SyntaxError:
                    continue
                a = syncbase.other_statements(after[n], addressed)
                # ... and each addressed definition is there exactly once afterwards (added when absent, replaced
                # when present, never duplicated or lost again by a later step of the same run)
                for k2, kd2 in cfg["kinds"].items():
                    if kd2["method"] or not any(f2["name"] == n for f2 in kd2["files"]):
                        continue
                    want_t = ast.ClassDef if k2 == "class" else ast.FunctionDef
                    cnt = lambda src: sum(1 for st in ast.parse(src).body if isinstance(st, want_t) and st.name == kd2["name"])
                    nb, na = cnt(before[n]), cnt(after[n])
                    if nb <= 1 and na != 1:
                        fails.append(dict(tag, what="an addressed definition is not in the file exactly once after the sync", name=kd2["name"], before=nb, after=na))
                # an added definition appears as one extra statement only when it was absent before
                if a != b:
                    # the appended definition itself is excluded by name; anything else is a frame violation
                    fails.append(dict(tag, what="an unaddressed statement changed, moved or disappeared", before=b[:6], after=a[:6]))
        return fails

    def classify(self, c, fl):
        return fl.get("_class")


def _has_module_docstring(src):
    try:
        return ast.get_docstring(ast.parse(src)) is not None
    except SyntaxError:
        return False
