"""usage: PYTHONPATH=/verif /venv/bin/python tools/unexplained.py C05 [n_cases] [seed] — lists failures of the property predicate
no finding class explains (the differences and the classes that matched the input), most frequent first"""
import sys, random, collections, json
sys.path.insert(0, '/verif')
from harness import common; common.prime()
import importlib
pid = sys.argv[1]; n = int(sys.argv[2]) if len(sys.argv) > 2 else 500; seed = int(sys.argv[3]) if len(sys.argv) > 3 else 0
P = importlib.import_module('harness.props.' + pid.lower()).PROP
from harness.common import Driver
class R:
    tier = "quick"
    def __init__(s): s.dist = collections.defaultdict(lambda: collections.Counter()); s.driver = Driver()
    def count(s, *a): pass
run = R(); P.setup(run)
r = random.Random(seed)
stats = collections.Counter(); ex1 = {}
for i in range(n):
    c = P.gen(r, i, run)
    for f in P.oracle(c, run):
        if P.classify(c, f) is None:
            diffs = f.get("diffs") or [f.get("what") + ":" + str(f.get("exc"))]
            ex = P.explain(c) if hasattr(P, "explain") else []
            from harness.astkinds import diff_key
            un = []
            for d in diffs:
                name, field = diff_key(d) if f.get("diffs") else ("", "raise")
                ok = any(field in keys or (name != "" and (names is None or (name in names and (names[name] is None or field in names[name])))) for cid, names, keys in ex)
                if not ok: un.append(d)
            key = (tuple(c.get("chain", [])), tuple(sorted(set(diff_key(d)[1] if f.get("diffs") else d for d in un))))
            stats[key] += 1
            ex1.setdefault(key, (un, [e[0] for e in ex], c))
for k, v in stats.most_common(40):
    un, cl, c = ex1[k]
    print(v, k); print("   unexplained:", un[:3]); print("   classes:", cl); print("   ir:", json.dumps(c["ir"])[:600], "| edd", c.get("edd"), "inline", c.get("inline"), c.get("opts"))
