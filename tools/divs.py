import sys, json, importlib, collections
sys.path.insert(0,'/verif')
from harness import common, engine
common.prime()
pid=sys.argv[1]; N=int(sys.argv[2])
P=importlib.import_module("harness.props."+pid.lower()).PROP
run=common.Run(pid,"quick",0); P.setup(run)
pend=[]
for i in range(N):
    c=P.gen(run.sub_rng("case",i),i,run)
    for layer,op,impl in P.corr(c,run): pend.append((c,layer,op,impl))
engine._flush(P,run,pend)
print(dict(run.counters))
seen=collections.Counter()
for d in run.divergences:
    i,m=d["impl"],d["model"]
    print("--- op:",json.dumps(d["op"])[:700]); print("  impl :",json.dumps(i)[:700]); print("  model:",json.dumps(m)[:700])
    if len(seen)>int(sys.argv[3]) if len(sys.argv)>3 else 4: break
    seen[len(seen)]+=1
