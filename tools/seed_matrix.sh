#!/bin/sh
# runs every seeded change against the check of its own property (and extra ones given in seeded/<id>/checks), prints a table
cd /verif
for d in seeded/*/; do
  s=$(basename $d); p=$(echo $s | cut -c1-3)
  extra=""; [ -f $d/checks ] && extra=$(cat $d/checks)
  out=$(tools/seed_run.sh /verif/$d $p $extra 2>&1)
  if echo "$out" | grep -q "PATCH DOES NOT APPLY"; then echo "$s | does-not-apply"; continue; fi
  base=$(echo "$out" | grep -c "154/154")
  demo=$(echo "$out" | sed -n '/demo (modified)/,/--- check/p' | grep -c -E "FAIL|fail|differ|expected")
  caught=$(echo "$out" | grep "VIOLATION" | sed 's/.*property=\([A-Z0-9]*\).*/\1/' | sort -u | tr '\n' ' ')
  nf=$(echo "$out" | grep -c "no-failing-input-found")
  echo "$s | baseline_ok=$base | demo_fails=$demo | caught_by=[$caught] | no_failing_input=$nf"
done
