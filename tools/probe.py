import sys, collections, json, importlib
from harness import common, engine
common.prime()
pid=sys.argv[1]; N=int(sys.argv[2])
P=importlib.import_module("harness.props."+pid.lower()).PROP
run=common.Run(pid,"quick",0); P.setup(run)
cnt=collections.Counter(); ex={}
tot=0
for i in range(N):
    c=P.gen(run.sub_rng("case",i),i,run)
    fl=P.oracle(c,run)
    tot+=1
    for f in fl:
        cls=P.classify(c,f)
        key=(cls, f["what"], f.get("style"), tuple(sorted(set(d.split(":")[1].split()[0] if ":" in d else d.split()[0] for d in f.get("diffs",[])))) , f.get("exc"))
        cnt[key]+=1; ex.setdefault(key,(c,f))
print("cases",tot)
for k,v in cnt.most_common(40):
    print(v,k); print("    ",json.dumps(P.describe(ex[k][0]))[:500]); print("    ",json.dumps(ex[k][1],default=repr)[:600])
