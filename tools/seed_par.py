#!/usr/bin/env python3
"""usage: tools/seed_par.py [-j JOBS] [--seeds 0,1] [seed ids...] — the seed matrix in parallel. Every seeded change is
applied to a COPY of /repo's HEAD (under /tmp/seedpar, removed afterwards); the check of its own property runs against
that copy (VERIF_REPO) with evidence and replays redirected to a scratch directory (VERIF_OUT); /repo itself is not
touched, so checks can go on running against it meanwhile. One line per seed:
  <id> | demo=<FAIL|pass|n/a> | <run seed>:<caught|nfi|MISSED> ..."""
import argparse, os, shutil, subprocess, sys
from concurrent.futures import ThreadPoolExecutor

V = "/verif"


def one(args):
    s, seeds = args
    p = s[:3]
    w = "/tmp/seedpar/" + s
    shutil.rmtree(w, ignore_errors=True)
    os.makedirs(w + "/_out")
    try:
        tar = subprocess.run("git -C /repo archive HEAD | tar -x -C %s" % w, shell=True, capture_output=True)
        if tar.returncode:
            return "%s | archive failed" % s
        patch = os.path.join(V, "seeded", s, "patch.diff")
        if subprocess.run(["patch", "-p1", "-s", "-F0", "-i", patch], cwd=w, capture_output=True).returncode:
            return "%s | does-not-apply" % s
        demo = "n/a"
        dp = os.path.join(V, "seeded", s, "demo.py")
        if os.path.exists(dp):
            open(w + "/_demo.py", "w").write(open(dp).read().replace("/repo", w))
            try:
                rc = subprocess.run(["/venv/bin/python", w + "/_demo.py"], cwd=w, env=dict(os.environ, PYTHONPATH=w), capture_output=True, timeout=900).returncode
                demo = "FAIL" if rc else "pass"
            except subprocess.TimeoutExpired:
                demo = "timeout"
        res = []
        for sd in seeds:
            env = dict(os.environ, VERIF_REPO=w, VERIF_OUT=w + "/_out", VERIF_SEED=str(sd))
            out = subprocess.run(["./check", p], cwd=V, env=env, capture_output=True, text=True).stdout
            vl = [l for l in out.splitlines() if l.startswith("VIOLATION")]
            res.append("%s:%s" % (sd, "MISSED" if not vl else "caught" if any("no-failing-input-found" not in l for l in vl) else "nfi"))
        return "%s | demo=%s | %s" % (s, demo, " ".join(res))
    finally:
        shutil.rmtree(w, ignore_errors=True)


def main():
    ap = argparse.ArgumentParser()
    ap.add_argument("-j", type=int, default=8)
    ap.add_argument("--seeds", default="0,1")
    ap.add_argument("ids", nargs="*")
    a = ap.parse_args()
    ids = a.ids or sorted(os.listdir(os.path.join(V, "seeded")))
    subprocess.run("cd %s/lean && lake build >/dev/null 2>&1" % V, shell=True)
    seeds = [int(x) for x in a.seeds.split(",")]
    with ThreadPoolExecutor(a.j) as ex:
        for line in ex.map(one, [(s, seeds) for s in ids]):
            print(line, flush=True)


if __name__ == "__main__":
    main()
