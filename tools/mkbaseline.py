#!/usr/bin/env python3
"""usage: tools/mkbaseline.py — records, for every source file of the doctrans package (tests aside), a digest of its
syntax tree (insensitive to comments and layout) as of /repo's working tree, plus the usual wall time of every quick
check (from the evidence files). The checks compare the tree they run against with this record: when a file differs,
the model was last validated against OTHER code, and the run enlarges its sample (see DESIGN A.11). Re-run after every
`fix:` commit."""
import ast, glob, hashlib, json, os, subprocess, sys

if sys.executable != "/venv/bin/python" and os.path.exists("/venv/bin/python"):
    os.execv("/venv/bin/python", ["/venv/bin/python"] + sys.argv)  # (ast.dump differs between versions: use the checks' interpreter)

V = "/verif"
REPO = os.environ.get("VERIF_REPO", "/repo")


def digest(path):
    try:
        return hashlib.sha256(ast.dump(ast.parse(open(path).read())).encode()).hexdigest()[:20]
    except SyntaxError:
        return "syntax-error"


def main():
    files = {}
    for p in sorted(glob.glob(os.path.join(REPO, "doctrans", "*.py"))):
        files[os.path.relpath(p, REPO)] = digest(p)
    wall = {}
    for e in sorted(glob.glob(os.path.join(V, "evidence", "C??.json"))):
        d = json.load(open(e))
        if d.get("tier") == "quick":
            wall[d["property_id"]] = round(float(d.get("wall_s", 0)), 1)
    head = subprocess.run(["git", "-C", REPO, "rev-parse", "--short", "HEAD"], capture_output=True, text=True).stdout.strip()
    json.dump({"comment": "digests of the syntax trees of doctrans/*.py at the commit the model was last validated against; written by tools/mkbaseline.py",
               "repo_head": head, "python": "%d.%d" % sys.version_info[:2], "files": files, "quick_wall_s": wall}, open(os.path.join(V, "source_baseline.json"), "w"), indent=1, sort_keys=True)
    print("baseline of %d files at %s" % (len(files), head))


if __name__ == "__main__":
    main()
