#!/bin/sh
# usage: tools/seed_collect.sh C17   -> copies /tmp/seed/C17/_seed/<k>/ to /verif/seeded/C17-<k>/
id=$1
for k in 1 2 3; do
  src=/tmp/seed/$id/_seed/$k
  [ -d "$src" ] || continue
  dst=/verif/seeded/$id-$k
  mkdir -p "$dst" && cp "$src"/patch.diff "$src"/demo.py "$src"/meta.json "$dst"/ 2>/dev/null
  # demos written for the scratch worktree: point them at the repository
  sed -i "s#/tmp/seed/$id#/repo#g" "$dst"/demo.py
  echo "collected $dst"
done
