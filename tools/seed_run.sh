#!/bin/sh
# usage: tools/seed_run.sh <seeded dir> [check ids...]
# Applies the seeded change to /repo, runs (a) the pinned suite, (b) the demo, (c) the named checks, then reverts.
d=$1; shift
cd /repo || exit 2
if [ -n "$(git status --porcelain --untracked-files=no)" ]; then echo "/repo not clean"; exit 2; fi
git apply "$d/patch.diff" || { echo "PATCH DOES NOT APPLY"; exit 2; }
trap 'git -C /repo checkout -- . ' EXIT INT TERM
echo "--- baseline"; /verif/tools/baseline_off.sh | tail -3
echo "--- demo (modified)"; (cd /repo && PYTHONPATH=/repo /venv/bin/python "$d/demo.py" 2>&1 | tail -4; echo "demo exit=$?")
for c in "$@"; do
  echo "--- check $c"; (cd /verif && ./check $c 2>&1 | grep -E "VIOLATION|seed=|HARNESS" ; )
done
git -C /repo checkout -- .
trap - EXIT
echo "--- demo (unmodified)"; (cd /repo && PYTHONPATH=/repo /venv/bin/python "$d/demo.py" 2>&1 | tail -2)
