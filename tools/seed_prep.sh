#!/bin/sh
# usage: tools/seed_prep.sh C07 d  -> creates the scratch worktree /tmp/seed/C07d of /repo's HEAD and writes the
# sub-agent prompt /tmp/seed/C07d.prompt.txt (property text only; nothing from /verif's machinery)
pid=$1; suf=$2; id=$pid$suf
mkdir -p /tmp/seed
git -C /repo worktree add --detach /tmp/seed/$id -q || exit 2
python3 - "$pid" "$id" <<'PY'
import json, sys
pid, id_ = sys.argv[1:]
p = next(json.loads(l) for l in open('/verif/properties.jsonl') if json.loads(l)['id'] == pid)
prop = "%s — %s\n\nStatement: %s\n\nQuantified over (%s): %s\n\nWhy the existing tests cannot settle it: %s\n\nCode anchors: %s\n" % (
    pid, p['title'], p['statement'], ", ".join(p['quantifier']['over']), p['quantifier']['text'], p['why_tests_cant'], json.dumps(p['anchors']))
t = open('/verif/tools/seed_prompt_template.txt').read().replace('@ID@', id_).replace('@PROP@', prop)
t = t.replace("154 passed, 12 failed, 1 error", "155 passed, 11 failed, 1 error").replace("the SAME 154 tests", "the SAME 155 tests")
open('/tmp/seed/%s.prompt.txt' % id_, 'w').write(t)
PY
echo /tmp/seed/$id.prompt.txt
