#!/bin/sh
# usage: tools/seed_multi.sh <seeded id> <check id> <run seeds...>  — applies the seeded change once, runs the check with each
# VERIF_SEED, prints for each whether it raised a VIOLATION; reverts
id=$1; chk=$2; shift; shift
cd /repo || exit 2
if [ -n "$(git status --porcelain --untracked-files=no)" ]; then echo "/repo not clean"; exit 2; fi
git apply /verif/seeded/$id/patch.diff || { echo "$id PATCH DOES NOT APPLY"; exit 2; }
trap 'git -C /repo checkout -- . ' EXIT INT TERM PIPE
res=""
for sd in "$@"; do
  out=$(cd /verif && VERIF_SEED=$sd ./check $chk 2>&1)
  if echo "$out" | grep -q "^VIOLATION"; then
    if echo "$out" | grep "^VIOLATION" | grep -qv "no-failing-input-found"; then res="$res $sd:caught"; else res="$res $sd:nfi"; fi
  else res="$res $sd:MISSED"; fi
done
git -C /repo checkout -- .
trap - EXIT
echo "$id/$chk:$res"
