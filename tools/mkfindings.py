"""usage: mkfindings.py <PROP>  — for every finding class the predicate hits that is not yet listed for PROP,
search a (shrunk) witness and append an 'open' entry with the description from DESCR below."""
import sys, json, importlib
sys.path.insert(0, '/verif')
from harness import common, engine
common.prime()
DESCR = {
 "C15-prefix-segment-names-a-function": "a location whose first segment names a function and that has two or more further segments (f.g.a) does not exist, yet find_in_ast spends one further segment on every function definition it meets and returns an argument of a LATER function (def C(..) / def x(q, a): [C, meth, a] -> x.a)",
 "C14-prefix-segment-names-a-function": "see C15-prefix-segment-names-a-function",
 "AST-non-string-default-under-a-str-mentioning-type": "a numeric or boolean default under a type that mentions str (Union[int, str], Literal[-1, 'auto']) is handed to quote(): the class emitter and the default sentence raise AttributeError, a falsy value is treated as absent, a negative one comes back as an unevaluated ast.UnaryOp",
 "C07-container-default-left-as-ast-node": "a list / tuple / dict literal as signature default of a function or method (`def f(x=[])`) is left in the description as an unevaluated ast node (parse.class_ with __init__ evaluates it)",
 "AST-prose-starting-with-optional-wraps-the-type": "an entry whose prose starts with \"(Optional)\" or \"Optional\" is read back with its type wrapped in Optional[...] (docstring_parsers._set_name_and_type): the declared type is not preserved",
 "C19-D18-annotated-callable-raises": "gen on an in-memory class/function whose signature carries annotations raises SyntaxError: the annotation object is turned into the text \"<class 'int'>\" and parsed as a type",
 "C14-eval-onto-a-function-argument-raises": "eval mode with a function argument as output address raises AttributeError (the generated AnnAssign has no value for the default patching)",
 "C14-eval-of-a-scalar-or-string-value": "eval mode turns the evaluated value into Literal[...] by iterating it: a scalar raises TypeError and a string becomes a Literal of its characters (Literal['a', 'd', 'a', 'm'])",
 "C14-wrap-applied-again-when-an-input-address-repeats": "the wrap template is written into the INPUT tree's node, so when the same input address is used by a second pair its annotation is wrapped twice (Union[Union[X, str], str])",
 "C14-D11-kwonly-argument-not-found": "a keyword-only argument cannot be addressed on the input side (find_in_ast only looks at positional arguments): AssertionError",
 "C14-D11-function-before-target": "an address whose resolution walks past a function definition is not found / resolves to the wrong node (find_in_ast, see C15-D11)",
 "C14-D25-string-constant-equals-segment": "a string constant equal to the addressed name is found/replaced instead of the addressed node (see C15-D25)",
 "C14-D12-nesting-deeper-than-two": "locations deeper than two segments are labelled with their last two names only (see C15-D12)",
 "C14-duplicate-name-in-scope": "see C15-duplicate-name-in-scope",
 "C14-absent-prefix-falls-through": "see C15-absent-prefix-falls-through: an address whose first segment does not exist resolves to a later segment's binding instead of being reported",
 "C14-prefix-segment-names-an-assignment": "see C15-prefix-segment-names-an-assignment",
 "C14-D13-function-node-never-replaced": "see C15-D13",
 "C07-numpydoc-trailing-section-read-as-parameters": "numpydoc: a section after Parameters (Raises / Examples ...) is read as further parameters named 'Raises', '------', 'ValueError'",
 "C07-D3-documented-parameters-come-first": "when the docstring documents only some parameters, or documents them out of signature order, the parsed interface lists the documented ones first (in docstring order) and the rest after them - not in source order (kernel-checked: Py.documented_first_witness, Py.irMerge_keys)",
 "C07-D3-undocumented-kwargs-dropped": "an undocumented **kwargs parameter is not listed at all",
 "C07-negative-default-under-a-documented-str-type-left-as-ast": "a negative numeric signature default of a parameter whose docstring declares a str type is left as an unevaluated ast.UnaryOp object in the description",
 "C01-untyped-entry": "numpydoc/google docstring entries without a type are not parsed as entries (see C01): the parameter's prose/type is lost or attached elsewhere",
 "C06-required-parameter-emitted-with-none-default": "a parameter that has no default in the description is emitted as `name=None`: the executed function does not require it (inspect.signature shows a default the description does not have)",
 "C06-black-normalises-docstring-indentation": "written through emit.file with black, the docstring constant of the definition is re-indented and trimmed by black, so the file's syntax tree differs from the emitted one in that string (the docstring as seen by inspect.getdoc is the same)",
 "C04-scalar-with-none-default": "a scalar option whose default is None is read back with the zero value of its type",
 "C04-list-with-explicit-default": "a List[..] option with an explicit default does not keep it",
 "C04-inexpressible-type": "types argparse cannot express fall back to str; nested Optional/List are reordered",
 "C04-non-string-literal": "Literal choices that are not strings are stringified",
 "C05-intermediate-description-leaves-next-kinds-domain": "conversions compose badly: the normalisation of one kind produces a description the next kind does not carry faithfully (e.g. function/method write None for a missing default, argparse then reads the parameter as Optional[...]; argparse/class write '' or 0, the next docstring then says 'Defaults to' with nothing after it)",
 "C01-D7-default-invented-after-defaulted": "numpydoc/google invent a default for every entry after a defaulted one (and for the return entry); later kinds on the chain then fail or raise",
 "C01-D8-google-return-type-as-prose": "google reads the return type back as prose",
 "C04-return-entry": "a return entry is dropped or altered by argparse on the chain",
 "C03-return-default": "a return entry with a default expression is not preserved by function/method on the chain",
 "C08-google-drift": "google output keeps changing between the second and third emission (return type read back as prose, D8)",
 "AST-untyped-entry": "an entry without a type does not survive: the emitters invent a type from the default (or `object`), drop the annotation, or the parser raises",
 "AST-entry-without-prose": "an entry without prose loses its default/type on the way through the docstring part of the artefact (function emitter raises AttributeError on a prose-less return entry)",
 "AST-code-default": "a back-tick quoted code default loses its quoting / is cut at '.' / changes the declared type / makes the parser raise (root: extract_default strips back-ticks, see C17-code-default-unquoted)",
 "AST-empty-or-dotted-string-default": "an empty-string default is treated as absent (truthiness test) and a string default containing '.' is cut at the dot",
 "C17-D9-prose-mentions-defaults": "prose containing 'defaults' suppresses the default sentence",
 "C18-D20-wrapping-changes-content": "with word_wrap on, content longer than the line length is re-flowed in ways the parser does not undo",
 "C02-dict-typed-attribute": "an attribute of type `dict` gets `{}` as default whatever the IR says, and a None default makes ast.unparse raise TypeError (Dict(keys=None))",
 "C03-D27-inline-type-replaced-by-type-of-default": "with inline annotations, a parameter of type Optional[..]/Literal[..]/List[..] that has an explicit default comes back typed by type(default).__name__ (Optional[int] -> int, Literal['a','b'] -> str)",
 "C03-return-default": "a return entry that carries a default expression is not preserved by the function round trip (default re-quoted or lost, type re-inferred)",
 "C04-return-entry": "a return entry is dropped (no default) or altered (default re-quoted, type wrapped) by the argparse round trip",
 "C04-D28-bool-without-default-becomes-optional": "a bool (or List[bool]) option without default is emitted without required=True and read back as Optional[bool]",
 "C04-non-string-literal": "Literal choices that are not strings are stringified (Literal[1, 2] -> Literal['1', '2']) or make the parser raise TypeError",
 "C04-single-choice-literal": "a Literal with a single choice is read back as plain str",
 "C04-kwargs-dict": "a kwargs-named / dict-typed parameter changes type through argparse (Optional[dict] -> Optional[str])",
 "C04-list-with-explicit-default": "a List[..] option with an explicit default does not keep it (type becomes List[Optional[dict]], default re-quoted)",
 "C04-scalar-with-none-default": "a scalar option whose default is None is read back with the zero value of its type",
 "C04-inexpressible-type": "types argparse cannot express fall back to str (documented), but nested Optional/List are reordered (List[Optional[str]] -> Optional[List[str]])",
}
def main(pid, N=4000):
    P = importlib.import_module("harness.props." + pid.lower()).PROP
    run = common.Run(pid, "quick", 0); P.setup(run)
    kf = json.load(open('/verif/known_findings.json'))
    have = {f["id"] for f in kf["findings"] if f["property"] == pid}
    found = {}
    for i in range(N):
        c = P.gen(run.sub_rng("case", i), i, run)
        for fl in P.oracle(c, run):
            fid = P.classify(c, fl)
            if fid and fid not in have and fid not in found:
                def still(x, fid=fid):
                    return any(P.classify(x, g) == fid for g in P.oracle(x, run))
                small = common.shrink(c, still, P.shrink_candidates)
                found[fid] = small
    for fid, w in found.items():
        kf["findings"].append({"property": pid, "id": fid, "status": "open", "what_fails": DESCR.get(fid, fid), "witness": w})
        print("added", pid, fid)
    json.dump(kf, open('/verif/known_findings.json', 'w'), indent=1)
if __name__ == "__main__":
    for pid in sys.argv[1:]: main(pid)
