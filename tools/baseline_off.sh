#!/bin/sh
# Runs the repository's pinned test-suite with the verification guard OFF and
# checks that every test of BASELINE.json's stable_pass still passes.
unset DOCTRANS_VERIF
cd /repo || exit 2
out=$(mktemp)
/venv/bin/python -m pytest -ra -q -p no:cacheprovider --timeout=900 --continue-on-collection-errors --junitxml="$out" >/dev/null 2>&1
/venv/bin/python - "$out" <<'PY'
import json, sys, xml.etree.ElementTree as ET
base = json.load(open("/root/.vp/BASELINE.json"))
passed = set()
for tc in ET.parse(sys.argv[1]).getroot().iter("testcase"):
    if not any(c.tag in ("failure", "error", "skipped") for c in tc):
        passed.add("%s::%s" % (tc.get("classname"), tc.get("name")))
missing = [t for t in base["stable_pass"] if t not in passed]
print("baseline: %d/%d stable tests pass" % (len(base["stable_pass"]) - len(missing), len(base["stable_pass"])))
for m in missing:
    print("MISSING", m)
sys.exit(1 if missing else 0)
PY
rc=$?
rm -f "$out"
exit $rc
