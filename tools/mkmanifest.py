#!/usr/bin/env python3
"""Regenerates /verif/MANIFEST.json from the table below (keeps it schema-valid)."""
import json
import os

HERE = os.path.dirname(os.path.dirname(os.path.abspath(__file__)))

TB = (
    "Trusted: Lean 4.33.0 kernel (axioms propext, Classical.choice, Quot.sound only; no native_decide/bv_decide, no "
    "axioms of ours); the hand-written model's agreement with /repo is established by the differential run of this "
    "check (tested on the distribution printed in the evidence, not proved); harness generators/canonicaliser. "
)

CLAIMS = {
    "C17": dict(
        technique="Lean 4 theorems on a statement-level model of the defaults codec + model/implementation differential run",
        text=(
            "Kernel-checked theorems (Properties of DT/C17.lean: extract_announced_keep/remove for any prose and any "
            "scan-stable value text; C17_int, C17_negint, C17_int_typed, C17_true, C17_false_typed, C17_str_typed for "
            "both modes, unbounded in prose and digits) about a statement-by-statement Lean model of "
            "extract_default/set_default_doc/interpolate_defaults; the model is tied to the code by running both on the "
            "same generated operations (adversarial text included); the property predicate itself is evaluated on the "
            "real code for every in-domain case. C17_float / C17_float_typed (C17Float.lean) cover floats written "
            "digits.digits; floats with an exponent and code defaults are covered by the differential run and the "
            "predicate only; three recorded findings delimit the domain."
        ),
        design="§7 C17",
        note=TB + "Modelled not verified: str methods (ASCII), literal_eval/int()/float() on the value grammar; float(repr(x)) == x is CPython's.",
    ),
    "C01": dict(
        technique="Lean 4 theorems on statement-level models of the emitters, scanners and parsers of all three docstring styles + differential run on emitted and mutated text",
        text=(
            "Kernel-checked: scanRest_spec_cons (the hand-rolled ReST scanner equals its specification on any token-clean "
            "text, unbounded) and C01_rest_nodefault_partial (emit->parse = identity for every summary and every non-empty "
            "list of typed, described, default-free parameters; induction over parameters and characters) about a "
            "statement-by-statement model of emit.docstring(rest)/_scan_phase_rest/_parse_phase_rest; the C17 theorems cover "
            "the default sentence. numpydoc and google are modelled statement by statement too (entry emitters, "
            "emit.docstring, the scan phase, the parse phase): scanLoop_keeps_lines (the line grouping drops, duplicates "
            "or reorders no line of a section) and parseNumpy_emitted / parseGoogle_emitted (the entry parsers invert the "
            "entry emitters on trimmed single-line entries), and NumpyRT.C01_numpydoc_nodefault_partial / "
            "GoogleRT.C01_google_nodefault_partial: the whole round trip emit.docstring -> scan phase -> line grouping -> "
            "return split -> entry parser -> interpolate_defaults -> _set_name_and_type is the identity on the same "
            "default-free domain for these two styles as well (any number of parameters; the grouping loop is shown to be a "
            "fold, scanLoop_fold). The three whole-docstring theorems are partial: no defaults (the default sentence is "
            "covered by the C17 theorems, floats included), no return entry - except ReST, where C01_rest_return_partial carries a typed, "
            "described return entry through the :returns:/:rtype: pair (the return items do not flush the parameter being "
            "collected, the final flush does), google, where GoogleRT.C01_google_return_partial does the same through the Returns: "
            "section (scanLoop_googleR: the dedent that ends Args: finds the return token on the next line, for any number "
            "of arguments), and numpydoc, where "
            "NumpyRT.C01_numpydoc_return_partial carries a typed, described return entry through the Returns/------- "
            "section (returnSplit_found: the return split finds the pair right after the argument units, for any number of "
            "arguments) - and the lexical side conditions listed in "
            "DESIGN A.3. All models are run against the code on every generated IR and on mutated text, entry by entry and "
            "as whole docstrings. The recorded finding classes delimit the domain on which the property holds today; a "
            "failure is excused only when each of its differences is about a field of an entry a finding explains."
        ),
        design="§7 C01",
        note=TB + "word_wrap=False here (wrapping is C18).",
    ),
    "C15": dict(
        technique="Lean 4 theorems (mutual induction over a generic AST) on the model of RewriteAtQuery + statement-level model of annotate/find tied by differential run; independent resolver as predicate",
        text=(
            "Kernel-checked, about the very functions the model driver runs (total, mutual structural recursion over the "
            "nested-inductive tree mirroring Python's ast field by field): visit_replaced (at most one replacement), "
            "visit_untouched (a sub-tree the search does not touch is returned unchanged, for any state), "
            "visitItems_frame/visitItems_length (in every statement list walked, untouched statements come back at the "
            "same index; nothing dropped, duplicated or reordered), visit_search, visit_constant_kept (a string constant is never what gets "
            "replaced, whatever location it carries: fix 8971591); find_sound (a total, fuel-indexed "
            "transliteration of find_in_ast: whatever it returns carries the searched location or is named by one of the "
            "search's segments - mutual induction over its two loops). annotate_ancestry is modelled statement by "
            "statement (executable, no theorem). Both are tied to the code on every generated module, and a lookup after "
            "an in-place rewrite is compared with a lookup on a fresh parse; the property predicate is an independent resolver over ast run against the real code for "
            "every case (where several statements bind the addressed name, a replacement must change exactly one of them). "
            "The property is false today on several classes (nine recorded findings: D11, D12, D13 and six more; D25 is repaired); on the remaining domain the predicate held on every case explored."
        ),
        design="§7 C15",
        note=TB + "find_in_ast/annotate_ancestry: model is `partial` (executable Impl), so no theorem speaks about it yet — correspondence + predicate only.",
    ),
    "C20": dict(
        technique="Lean 4 theorems on a step machine for file writes (every fault index, any number of targets) and on the CLI decision function + exhaustive fault injection / argv differential run",
        text=(
            "Kernel-checked, buffered I/O: FsBuffered.atomicB_all_or_nothing - `write` only fills a buffer, the bytes reach the "
            "disk when the temporary file is flushed and closed, and whichever step fails (the flush after any number of "
            "bytes included) the target is byte-identical to before or holds the complete new contents and no temporary file "
            "is left; moveBeforeFlush_not_all_or_nothing: with the move inside the with-block a failing flush cuts the target "
            "off (tied by the `fs_buffered` operation: the real write whose error surfaces at close). " "Kernel-checked: FsSync.runTargets_all_or_nothing (for ANY list of targets with fresh temp paths and ANY fault "
            "position (target k, step i) every target file is afterwards byte-identical to before or completely rewritten, "
            "no temp file is left; induction over the target list), atomic_all_or_nothing, runTargets_frame (no other path "
            "is touched), Cli.sync_never_internal / sync_reject_untouched / sync_accept_iff / sync_all_or_nothing for the "
            "decision function of `main`; and the kernel-checked counterexamples for the code as it was "
            "(plainWrite_not_all_or_nothing = D16, syncOld_internal_witness = D17), both repaired by fix: commits. The model "
            "is tied to the code by injecting a fault into emit.file's open/write/os.replace at EVERY position of every "
            "write of generated multi-file syncs (API and CLI) plus a fault in every rendering step, comparing the "
            "directory snapshot with FsSync.runTargets, and by running main() on generated argv shapes against Cli.*Decide. "
            "Faults are exceptions (I/O errors), not power loss; gen's own final write is covered under C19."
        ),
        design="§7 C20",
        note=TB + "Fault = a Python exception raised by open/write/os.replace; crash/power-loss semantics (fsync, rename durability) are not modelled. black/ast.unparse run for real.",
    ),
    "C09": dict(
        technique="Lean 4 theorems on the per-file conform step (abstract layer with named laws + concrete decision table) tied by instrumented differential run; agreement predicate through an independent resolver and the real parsers",
        text=(
            "Kernel-checked: FsSync.conform_agrees (for every pre-state of a target — missing, definition absent, stale, "
            "agreeing — the file afterwards reads back as the truth, given the named laws read_render/find_single/"
            "find_replace/find_append/cmp_refl of the lower layers) and Conform.report_iff_written for the concrete decision "
            "table of _conform_filename. The decision table is tied to the code by recording, inside every real "
            "_conform_filename call, what it observed (exists/found/cmp/replaced/same-program) and what it did, and "
            "comparing with Conform.decide. The laws are not proved for the real emitters/parsers: they are exactly what "
            "the predicate checks per run (every target, located by an independent resolver and parsed by the real parser, "
            "must agree with the generated interface). GroundTruth.sync_all_agree lifts this to the WHOLE loop of "
            "ground_truth: any number of kinds and files, files shared between kinds or not, any pre-state - every target "
            "agrees at the end - using two further FRAME laws (writing at one location leaves what is found at an "
            "independent location alone; step_keeps); toy_laws exhibits a concrete layer that satisfies all seven laws, so "
            "the theorem is not about an inconsistent set of assumptions. Three finding classes are recorded (stale FunctionDef targets are "
            "not updated; method target without its class; function before target)."
        ),
        design="§7 C09",
        note=TB + "The laws of the abstract layer are hypotheses, tested per generated project, not theorems about the Python emitters/parsers.",
    ),
    "C10": dict(
        technique="Lean 4 theorems on the conform decision table (second and every later sync is a no-op; report true iff written) + instrumented differential run over sync histories",
        text=(
            "Kernel-checked: GroundTruth.report_lookup (the report of one sync, `effect[f] = effect.get(f, False) or modified` "
            "folded over ALL _conform_filename calls, contains a file exactly when some step named it and says changed "
            "exactly when some step on it changed it - any number of kinds, files, steps; tied to the code by the `report` "
            "layer: the recorded per-call flags of every real run against the dict ground_truth returns), "
            "step_false_unchanged (a step that answers False leaves the file system as it was), reportOld_witness (what fix "
            "460074c repaired). " "Kernel-checked: Conform.second_sync_noop and later_syncs_noop (induction over any number of further syncs: once "
            "a file exists, the definition is found and re-rendering reproduces the same program, nothing is written and "
            "'unchanged' is reported, whatever cmp_ast and RewriteAtQuery answer), report_iff_written, "
            "decide_leaves_unchanged_file, the D14 witness decideOld_reports_unchanged_file, and the abstract "
            "FsSync.conform_idem / conform_converges. Tied to the code by the recorded observations of every "
            "_conform_filename call over histories of three syncs (same and alternating truth kinds, API and CLI); the "
            "predicate compares byte snapshots, the returned and the printed report, and the truth file."
        ),
        design="§7 C10",
        note=TB + "nextObs' premises (definition found again; same program after re-rendering = ast.unparse/black stability) are tested per run, not proved.",
    ),
    "C11": dict(
        technique="Lean 4 frame theorems over the generic AST for the model of RewriteAtQuery + differential run; per-statement ast.dump comparison on generated target modules",
        text=(
            "Kernel-checked on the model the driver runs: visit_untouched, visitItems_frame, visitItems_length (every "
            "statement the search does not touch comes back at its index, unchanged; nothing dropped, duplicated or "
            "reordered), visit_replaced (only one node is replaced). The rewrite model is tied to the code by the C15 "
            "differential run; here every generated target module (definition before/between/after other statements, "
            "same-named methods in other classes, with and without a trailing newline) is synced for real and every "
            "statement other than the named definition is compared by ast.dump, and the file must parse. The append branch "
            "(existing text + addition) is checked by the predicate only."
        ),
        design="§7 C11",
        note=TB + "ast.unparse and black are not modelled: 'file parses' and tree identity after re-emission are checked per run.",
    ),
    "C02": dict(
        technique="Lean 4 theorems on interface-level normal forms (what emit->parse does to a description) + differential run conv = norm on every in-domain description; round-trip predicate on the real code",
        text=(
            "Kernel-checked: ToDocstring.entryBlockP_plain / toDocstring_text (the docstring emit.class_ builds - one block per "
            "entry, every helper on the way leaves a default-free one-line entry alone - in closed form, at every "
            "indentation level) and FuncDoc.cleandoc_uniform (what ast.get_docstring hands to parse.class_). " "Kernel-checked: Kinds.pres_class (one conversion keeps every parameter's prose, type and explicit default and only "
            "fills absent defaults), norm_pres (names and order kept; return entry kept or lost, never invented), norm_cls_idem, "
            "for ALL descriptions (no size bound). These theorems speak about Kinds.norm, an interface-level model of "
            "emit.class_ followed by parse.class_. Behind it, the attribute half is modelled statement by statement "
            "(ClassAttr: param2ast, the AnnAssign branch of parse.class_, _infer_default) and ClassAttr.attrRT_eq_norm "
            "proves that this statement-level round trip IS Kinds.normClassParam on the typed, literal-default domain (six "
            "staged theorems by shape of type and default, each with a concrete instance); Refine.class_refines lifts it to ANY number of attributes (the statement-level round trip mapped over the parameter list IS (norm .cls ir).params). The ties are differential runs: "
            "whole description and every entry alone (Kinds.dom_single / norm_single justify the decomposition) against the "
            "real emit -> ast.unparse -> ast.parse -> parse, plus param2ast and the attribute parser against the real "
            "functions on every entry, and - since round h - the WHOLE kind at statement level (ClassKind.classKindRT: "
            "emit.class_ with the return entry folded in, the docstring by to_docstring with its text replacements, the "
            "attributes built from the entries as to_docstring left them, inspect.cleandoc, parse.docstring, the attribute "
            "merge of parse.class_, _set_name_and_type) against the real round trip of every case without wrapping. The property predicate (names, order, types, prose, explicit "
            "defaults with their Python type, permitted normalisation only) runs on the real code for every case, inside and "
            "outside that domain; the classes where it fails today are recorded findings."
        ),
        design="§7 C02",
        note=TB + "Interface-level model (emit∘parse as one function of the IR); ast.unparse/ast.parse run for real. word_wrap is exercised only where everything fits the line (else C18).",
    ),
    "C03": dict(
        technique="Lean 4 theorems on interface-level normal forms (what emit->parse does to a description) + differential run conv = norm on every in-domain description; round-trip predicate on the real code",
        text=(
            "Kernel-checked, the docstring half of the kind at statement level: FuncDoc.C03_docstring_half_partial - what "
            "parse.docstring reads from the docstring emit.function wrote (to_docstring with every helper it calls, then "
            "inspect.cleandoc as ast.get_docstring applies it, then the ReST parser) is the description it was written from, "
            "at EVERY indentation level, for any number of uniquely named, typed, described, default-free entries and texts "
            "of any length (types in the docstring, emit_separating_tab=True - with the default False of emit.function the "
            "lines are not behind a uniform margin and that case is tied by the func_doc_rt / func_kind layers only; no "
            "defaults, no return entry), and "
            "FuncDocInline.C03_docstring_half_inline_partial - the same with the types in the signature (inline_types=True, the "
            "default): :param lines only, every entry read back with its prose. Its parts: "
            "ToDocstring.toDocstring_text (the closed form of the emitted text, types in the docstring or not, separating "
            "indentation on or off), FuncDoc.cleandoc_uniform (cleandoc removes a uniform margin, whatever the lines), "
            "FuncDocParse.parse_text0 (the parser on text without the line breaks emit.docstring puts around it). " "Kernel-checked: Kinds.pres_func (one conversion keeps every parameter's prose, type and explicit default and only "
            "fills absent defaults), norm_pres (names and order kept; return entry kept or lost, never invented), norm_func_idem, "
            "for ALL descriptions (no size bound). These theorems speak about Kinds.norm, an interface-level model of "
            "emit.function followed by parse.function. Behind it: FuncAttr.funcRT_eq_norm (one parameter through set_value, "
            "func_arg2param and _infer_default IS Kinds.normFuncParam on the typed domain) and Sig.pairArgs_get / "
            "emit_then_pair (the padding + pairing step of parse.function gives every argument its own default; old-code "
            "witness pairArgsOld_shifts); Refine.func_refines lifts funcRT_eq_norm to ANY number of parameters. The ties are differential runs: whole description, every entry alone, and the "
            "func_attr layer, through the emitted text and (30% of the cases) tree to tree, against the real code; and - since "
            "round h - statement-level models of the whole kind: ToDocstring.toDocstring (emitter_utils.to_docstring), "
            "FuncDoc.cleandoc / funcDocRT (inspect.cleandoc; the docstring half of the round trip) and FuncKind.funcKindRT "
            "(emit.function followed by parse.function on whole descriptions: signature, docstring, **kwargs set aside, "
            "func_arg2param, ir_merge, _set_name_and_type, return annotation), each tied by its own layer (to_docstring, "
            "func_doc_rt, func_kind) on every case; no theorem yet speaks about these three as a whole. The property predicate (names, order, types, prose, explicit "
            "defaults with their Python type, permitted normalisation only) runs on the real code for every case, inside and "
            "outside that domain; the classes where it fails today are recorded findings."
        ),
        design="§7 C03",
        note=TB + "Interface-level model (emit∘parse as one function of the IR); ast.unparse/ast.parse run for real. word_wrap is exercised only where everything fits the line (else C18).",
    ),
    "C04": dict(
        technique="Lean 4 theorems on a statement-level model of param2argparse_param / _resolve_arg / infer_type_and_default / parse_out_param and of the require_default thread (argRT_eq_norm, argparseParams_refines: the statements refine the interface-level normal form) + differential runs per emitted call, per parsed call and per option list; round-trip predicate on the real code",
        text=(
            "Kernel-checked, about a statement-by-statement model of the argparse kind (ArgAttr.lean): argRT_eq_norm / "
            "argRT_eq_norm_first (for every entry of the shapes scalar, Optional[scalar], List[scalar], Literal['a', ...] "
            "with an absent, None or literal default, param2argparse_param followed by parse_out_param IS "
            "Kinds.normArgparseParam - for the options read before any default was seen: its first-option form), seven "
            "staged theorems with concrete instances, emit_lit / emit_none / emit_noneStr / parse_default / parse_nodefault "
            "(generic in what _resolve_arg answered), litMembers_join (the Literal member scanner inverts the printer, any "
            "number of members), argparseParams_refines / Refine.argparse_refines (ANY number of options, with the "
            "require_default flag threaded as parse.argparse_ast does: the statement-level function refines Kinds.norm), the "
            "D28 witness (bool without default comes back Optional[bool]) by decide +kernel; and the interface-level "
            "Kinds.pres_argparse / norm_pres / norm_argparse_idem / dom_single for ALL descriptions. Ties (differential runs "
            "against the real functions, in process): the keywords of every emitted add_argument call, what the real "
            "parser reads from every such call (after unparse/re-parse, both values of require_default and emit_default_doc), "
            "the whole option list of return-less descriptions, Kinds.norm on whole descriptions and on every entry alone. "
            "The walk over the parsed type expression is modelled by shape: other type shapes answer `unmodelled` (about 7% "
            "of the generated entries) and are left to the predicate. The property predicate (names, order, types, prose, "
            "explicit defaults with their Python type, permitted normalisation only) runs on the real code for every case; "
            "the classes where it fails today are recorded findings."
        ),
        design="§A.3, §A.9, §7 C04",
        note=TB + "ast.unparse/ast.parse run for real; the type-expression walk of _resolve_arg is modelled by shape, not as a generic tree walk. word_wrap is exercised only where everything fits the line (else C18).",
    ),
    "C05": dict(
        technique="Lean 4 theorem by induction over chains of any length on the interface-level normal forms + differential run of real chains through text against the composed model",
        text=(
            "Kernel-checked: Kinds.chain_pres — for EVERY list of kinds (any length, any order, repetitions allowed) the "
            "composed normal form keeps parameter names, order, prose, types and explicit defaults, position by position "
            "(nothing invented, nothing swapped between parameters; a return entry is kept or lost, never invented); "
            "chain_ok_pres transfers this to the executable chain with its per-step domain checks; chain_names. The model "
            "(Kinds.chain) is tied to the code by running real chains of 2-3 kinds — all 42 ordered pairs and 210 triples in "
            "the thorough tier — through the emitted text at every hop and comparing with the model whenever every "
            "intermediate description stays inside the regular domain of the next kind. A second, statement-level model "
            "(StmtChain: every hop is the statement-by-statement model of the real emitter and parser of that kind - three "
            "docstring styles with style detection, class, function/method, argparse) is compared EXACTLY with the code on "
            "the same chains (stmt_chain layer); chain_append (a chain is the composition of its parts) and "
            "hop_argparse_refines (the argparse hop of the statement-level chain refines the interface-level normal form) "
            "are kernel-checked. The predicate mirrors PresIR on the "
            "real code for every case. Where conversions compose badly today (function writes None, argparse then reads "
            "Optional[...]; '' and 0 defaults leave a dangling 'Defaults to') the case is a recorded finding."
        ),
        design="§7 C05",
        note=TB + "Unbounded chain length is proved for the model; on the code chains of length 2 and 3 are run. Interface-level model of each kind (see C02-C04).",
    ),
    "C08": dict(
        technique="Lean 4 idempotence theorems on the interface-level normal forms + differential run of single and double conversions; byte comparison of second and third emission",
        text=(
            "Kernel-checked at statement level: SetNameIdem.setNameAndType_idem - the normalising step every parser ends "
            "with (_set_name_and_type: prose re-flow, `, optional` rewriting, Optional[...] wrapping) applied to its own "
            "result changes nothing, for every default-free entry that is not a **kwargs one (unwrapProse_idem: the prose "
            "normalisation is idempotent on prose that starts with a visible character; with a default the quote-stripping of "
            "_infer_default is NOT idempotent in general and is not claimed). " "Kernel-checked: norm_cls_idem, norm_func_idem (and the per-entry normClassParam_idem / normFuncParam_idem): "
            "a second normalising pass changes nothing, so the description after one round trip is a fixed point and the "
            "third emission is the emission of the same description as the second; chain_eq_fold relates the executable "
            "chain to the fold. Tied to the code by comparing the real single and double conversion with Kinds.chain [k] and "
            "[k, k] for every in-domain case; the predicate compares the bytes of the second and third emission on the real "
            "code for all seven kinds and the option combinations. argparse/docstring idempotence is established by the "
            "differential run only (no theorem yet)."
        ),
        design="§7 C08",
        note=TB + "Emit determinism (same description, same options -> same bytes) is C12's; ast.unparse runs for real.",
    ),
    "C18": dict(
        technique="Lean 4 theorems on a model of textwrap.fill for the simple class of text (layout-only, width bound, fits => identity) and of the parser's line join (unwrap_fill: the join undoes the wrap for every width and every indentation) + per-width sub-process differential runs; wrapped-vs-unwrapped parse comparison on the real code",
        text=(
            "Kernel-checked: Wrap.wrapGo_flatten / wrapWords_flatten (the words of the produced lines, in order, are exactly "
            "the input words: wrapping is layout only - nothing lost, duplicated or moved), wrapGo_width (no line exceeds "
            "the width when no single word does), wrapGo_fits and fillSimple_id (text that fits the width is returned "
            "unchanged, for EVERY width), with join_split / lineLen_split; all by induction over the word list, no bound. "
            "Wrap.fillSimple is tied to doctrans.pure_utils.fill (textwrap at the configured width) by a differential run "
            "in one sub-process per width (the setting is read at import). The predicate runs every emitter at every width "
            "of the sweep with word_wrap on and compares parse(wrapped) with parse(unwrapped) modulo whitespace. "
            "Unwrap.unwrap_fill is the other half: what _set_name_and_type does to wrapped prose (Py.unwrapProse, the very "
            "function the ReST/numpydoc/google parse models call: every line stripped, the lines joined by one blank) gives "
            "back the text that was wrapped, for EVERY width, EVERY text of the simple class and EVERY white-space "
            "indentation in front of the lines; tied by the `unwrap` layer (the real _set_name_and_type on the real fill "
            "output, indented four ways). Partial: numpydoc continuation lines and wrapped :type lines are recorded "
            "findings (their exact shape is what the finding class excuses, nothing more); text outside the simple class "
            "(hyphens, words longer than the width) is covered by the predicate only."
        ),
        design="§7 C18",
        note=TB + "textwrap.fill outside the simple class (break_long_words, break_on_hyphens, tabs) is not modelled.",
    ),
    "C13": dict(
        technique="Lean 4 theorem over arbitrary call histories (emitters as IR -> Artefact x IR) + differential run of the post-call description; shared-vs-fresh artefact comparison on the real code",
        text=(
            "Kernel-checked: Shared.shared_eq_fresh - for ANY list of calls (any length, order, repetition), if no call "
            "changes the description it is given then running them on one shared description gives every call exactly the "
            "result it gives on a fresh copy (induction over the history); pure_histories; and the kernel-checked witness "
            "old_class_then_function_differs for the behaviour before fix 79e7812 (emit.class_ moved the return entry into "
            "the caller's params). The hypothesis 'the call leaves its argument unchanged' is exactly what the differential "
            "run establishes for each real emitter (post-call IR = Shared.emitPure's). The predicate runs histories of up "
            "to 4 emit calls on one shared description, and parse/emit histories sharing one function AST with a body, "
            "against fresh copies, and checks that the tree given to a parser is not altered."
        ),
        design="§7 C13",
        note=TB + "Artefacts are compared as text; the parsers' own input-preservation is checked by ast.dump, not modelled.",
    ),
    "C16": dict(
        technique="Lean 4 theorems on the statement-list surgery and on a total model of RewriteName over the generic AST + differential run; independent scope-aware renamer as predicate",
        text=(
            "Kernel-checked: Body.emit_parse_body / parse_emit_body / emit_body_noreturn (a carried body, with its final "
            "return when the description supplies it, comes back statement for statement - none dropped, duplicated or "
            "reordered, the return once; any body length), rwItems_length (RewriteName keeps every statement), "
            "rwNode_frame / rwItems_frame (a sub-tree that mentions no parameter is returned unchanged - no other name is "
            "touched) and rwNode_kind (only Name nodes change; keyword-argument names are atoms and are copied), by mutual "
            "induction over the nested-inductive tree. Both models are tied to the code on every generated function "
            "(RewriteName output tree; emitted statement list). The predicate compares ast.dump of the body after "
            "parse.function + emit.function, of the extra statements of an argparse function, and the __call__ body against "
            "an independent scope-aware renamer. RewriteName's scope-unawareness (D19) is a recorded finding."
        ),
        design="§7 C16",
        note=TB + "ast.unparse/ast.parse normalise statements before comparison (H_unparse_parse, tested per case).",
    ),
    "C06": dict(
        technique="Lean 4 theorems on 'views' (what CPython must see in an emitted artefact, as a function of the description) + differential run against CPython executing every artefact",
        text=(
            "Partial by nature: the CPython compiler/exec, inspect, argparse, ast.unparse and black are not modelled. What "
            "is kernel-checked are properties of Views.classView / sigView / argView, the model of the attribute table, the "
            "signature and the argparse action table an artefact must exhibit: argView_dests / argView_length / "
            "classView_names (exactly one attribute / action per parameter, in order, plus return_type), argOpt_default "
            "(an explicit default reaches the parser with value and type), argOpt_optional_not_required, and Kinds.norm_pres. "
            "The tie is the interpreter itself: every generated artefact is compiled, executed and inspected "
            "(class __dict__/__annotations__, inspect.signature, a real ArgumentParser's actions) and CPython's answer must "
            "equal the view; the predicate additionally checks validity, tree identity through unparse/re-parse (modulo the "
            "two systematic 3.12 differences named in DESIGN section 2) and through emit.file with and without black, and "
            "the interface exhibited against expectations computed directly from the description."
        ),
        design="§7 C06",
        note=TB + "Not modelled: CPython compile/exec, inspect, argparse, ast.unparse, black (their behaviour is observed per generated artefact).",
    ),
    "C07": dict(
        technique="Lean 4 theorems on a model of ir_merge with the set-iteration order as an explicit argument + replay of every real ir_merge call on the model; inspect.signature as predicate",
        text=(
            "Kernel-checked, the CONTENT of the merge: MergeContent.irMerge_get - for every iteration order of the common names "
            "and every name k, the merged description holds, for a name both halves know, the documented entry with "
            "exactly its gaps filled from the signature (mergeParam_precedence: documented prose, type and a documented "
            "default that is a value survive; mergeParam_fills: where the docstring is silent the signature's information "
            "comes out), for a name only the docstring knows the documented entry untouched, for a name only the signature "
            "knows the signature's entry; ClassKind.mergeAll_keys - merging the annotated assignments of a class body over "
            "the documented entries drops nothing, duplicates nothing, keeps documented names in place. " "Kernel-checked about Merge.irMergeParams (parser_utils.ir_merge on the parameter maps): irMerge_keys (for "
            "EVERY iteration order of the set of common names the merged description has exactly the target's names in the "
            "target's order followed by the names only the signature has, in signature order - nothing dropped, nothing "
            "duplicated), updKey_at / mergeParam (documented information wins, the signature fills the gaps), "
            "irMerge_deterministic, and the kernel-checked witnesses documented_first_witness (D3, still open) and "
            "diff_order_matters (D2, repaired). Every ir_merge call made by the real parsers on generated functions, methods "
            "and class+__init__ pairs is recorded and replayed on the model with a random iteration order. The predicate "
            "executes each definition and compares inspect.signature with the parsed interface (names once, order, "
            "defaults, annotations, prose attached to the named parameter, precedence). Partial: in-memory objects "
            "(inspect.getsource path) and the argument-to-param conversion are covered by the predicate only."
        ),
        design="§7 C07",
        note=TB + "Only ir_merge is modelled; func_arg2param/_set_name_and_type around it are exercised by the predicate.",
    ),
    "C12": dict(
        technique="Lean 4 theorem that the merge is independent of the set-iteration order (+ history-independence theorem of C13) + sub-process sweep over PYTHONHASHSEED and call orders",
        text=(
            "Kernel-checked: irMerge_deterministic / inter_order_irrelevant / updKey_comm (the only place where the "
            "parsers iterate a set, ir_merge's loop over the common names, gives the same result for every iteration order "
            "- per-name updates commute), diff_order_matters (the second loop did depend on it before fix ab10a32), and "
            "Shared.shared_eq_fresh (no dependence on earlier calls when emitters do not mutate their input). The model is "
            "replayed against every recorded real ir_merge call under two random orders. The part a theorem cannot reach - "
            "the interpreter's hash randomisation and per-process state - is covered by running the same batch of "
            "conversions (a tenth of them in-memory definitions, imported once per process and parsed as objects) in "
            "sub-processes under PYTHONHASHSEED 0..7 + random (thorough: 0..63), in permuted orders with "
            "repetitions, and requiring byte-identical output per conversion."
        ),
        design="§7 C12",
        note=TB + "A static audit of other nondeterminism sources (sets, globals, function attributes) is not automated; the sweep is the tie.",
    ),
    "C14": dict(
        technique="Lean 4 frame theorems for any number of successive replacements over the generic AST + differential run of the composite annotate/find/rewrite pipeline; file-level predicate with an independent resolver",
        text=(
            "Kernel-checked on the model the driver runs: rewriteMany_frame (after ANY number of (address, replacement) "
            "pairs applied one after the other, every statement none of the addresses touches is still at its index with an "
            "identical tree) and rewriteMany_length, built on visit_untouched / visitItems_frame / visit_replaced. The "
            "composite pipeline of sync_property (annotate_ancestry, find_in_ast on the input, RewriteAtQuery on the output, "
            "'replaced' assertion) is executed by the model driver and compared with the real function on the same trees "
            "for every generated case without wrap/eval (find_in_ast itself is an executable, not yet proved, model). The "
            "predicate works on real files: input byte-identical, output parses, every non-addressed node identical, the "
            "addressed nodes carry the input's annotation (wrapped by the template, or the Literal of the evaluated values), "
            "an unresolvable address is an error that leaves the output untouched. wrap and eval are covered by the "
            "predicate only."
        ),
        design="§7 C14",
        note=TB + "eval() of the input module and str.format of the wrap template run for real; find_in_ast findings of C15 are inherited.",
    ),
    "C19": dict(
        technique="Lean 4 theorems on the assembly step of gen (statement order, one definition per entry) + differential run of the statement order; structural predicate on the generated file",
        text=(
            "Kernel-checked: Gen.sortedDesc_eq / hoist_eq_sorted - the `sorted(imports, key=is_future, reverse=True)` of gen.gen, "
            "modelled as a stable insertion sort on the Boolean key, is the __future__ imports in their order followed by the "
            "others in theirs (the driver runs the sort model, not its closed form); sortedAsc_witness: a dropped reverse=True "
            "puts __future__ last. " "Kernel-checked about Gen.genBody / Gen.hoist (the assembly of the generated module): genBody_defs (the "
            "definitions are exactly one per mapping entry, named by the template, in mapping order - for any mapping "
            "length), hoist_split (every import precedes every other statement), hoist_length and filter_other_hoist "
            "(nothing lost or duplicated; prepended statements and definitions keep their relative order). The order model "
            "is tied to the code by comparing the top-level statement sequence of every real output file with Gen.hoist of "
            "the production order. The predicate imports generated input modules from a scratch directory, calls the real "
            "gen() for the three output types, templates, prepend and imports-from-file options and checks: parses, one "
            "definition per entry by name and order and type, __all__, prepend/imports once and first, parameter names of "
            "each definition against its source object, every literal default of the source signature against the default of "
            "the same parameter in the generated definition, and - through the CLI - that an output file which already exists "
            "(named absolutely, relatively, through an unexpanded ~, through a .. detour) is refused with the file and its "
            "directory untouched. Partial: the in-memory inspection (inspect.getsource, module import), the per-entry "
            "parse/emit and the refusal are real code, not modelled."
        ),
        design="§7 C19",
        note=TB + "Module import, inspect and eval of prepended imports run for real; annotated callables are a recorded finding.",
    ),
}

PENDING_REASON = "check not built yet in this round (work in progress; see DESIGN.md §10 build order) — not a claim that the technique cannot apply"


def main():
    props = [json.loads(l)["id"] for l in open(os.path.join(HERE, "properties.jsonl"))]
    checks, na = [], []
    for pid in props:
        c = CLAIMS.get(pid)
        if c is None:
            na.append({"property_id": pid, "reason": PENDING_REASON})
            continue
        checks.append(
            {
                "property_id": pid,
                "quick_cmd": "./check %s --tier quick" % pid,
                "thorough_cmd": "./check %s --tier thorough" % pid,
                "evidence_file": "evidence/%s.json" % pid,
                "replay_cmd_template": "./check %s --replay {path}" % pid,
                "engine": "lean-model+correspondence",
                "level_claimed": {"category": "proof", "text": c["text"], "design_ref": c["design"]},
                "level_note": c["note"],
                "technique": c["technique"],
            }
        )
    m = {
        "version": 1,
        "setup_cmd": "cd lean && lake build",
        "hooks": {
            "guard": "DOCTRANS_VERIF",
            "enable": "no source hooks: the harness imports doctrans from /repo's working tree in-process and injects faults by patching builtins in its own process",
            "baseline_off_cmd": "tools/baseline_off.sh",
            "source_commits": [],
            "add_only": True,
        },
        "engines": [
            {
                "name": "lean-model+correspondence",
                "path": "lean/ (model + theorems + dtmodel driver), harness/ (differential run, property predicate, verdict)",
                "serves_properties": [c["property_id"] for c in checks],
                "kind_free_text": "machine-checked proof in Lean 4 about a hand-written executable model; model tied to the code by a differential correspondence run on every check",
            }
        ],
        "checks": checks,
        "not_applicable": na,
        "notes": "Exit 2 = harness/internal error or timeout (never a violation). fix: commits in /repo are listed in known_findings.json with status fixed.",
    }
    with open(os.path.join(HERE, "MANIFEST.json"), "w") as f:
        json.dump(m, f, indent=1)
        f.write("\n")
    try:
        import jsonschema

        jsonschema.validate(m, json.load(open("/root/.vp/MANIFEST.schema.json")))
        print("MANIFEST valid:", len(checks), "checks,", len(na), "not_applicable")
    except ImportError:
        print("written (jsonschema not available to validate)")


if __name__ == "__main__":
    main()
