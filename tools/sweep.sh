#!/bin/sh
# usage: tools/sweep.sh <tier> <seed>... — runs every claimed check for the given seeds, prints non-zero exits
tier=$1; shift
cd "$(dirname "$0")/.." || exit 2
(cd lean && lake build >/dev/null 2>&1)
ids=$(python3 -c "import json; print(' '.join(c['property_id'] for c in json.load(open('MANIFEST.json'))['checks']))")
for sd in "$@"; do
  for id in $ids; do
    out=$(VERIF_SEED=$sd ./check $id --tier $tier 2>&1); rc=$?
    if [ $rc -ne 0 ]; then echo "=== $id seed=$sd rc=$rc"; echo "$out" | grep -E "VIOLATION|HARNESS|Error" | head -5; fi
  done
done
echo "sweep done: tier=$tier seeds=$*"
